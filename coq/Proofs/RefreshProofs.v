(* C12: one refresh per stale epoch, whatever the interleaving and the number of requests. *)
From Coq Require Import List Arith Bool Lia.
Import ListNotations.
From V.Model Require Import Refresh.

Definition critical (p : pc) : bool :=
  match p with PReload | PRefresh _ | PSave _ | PRelease _ => true | _ => false end.

Definition lock_ok (s : state) : Prop := forall t, critical (pcs s t) = true <-> lock s = Some t.

Definition okA (p : pc) : Prop :=
  match p with PLoad | PLock 0 | PReload | PRefresh 0 => True | _ => False end.
Definition okB (p : pc) : Prop :=
  match p with PLoad | PLock 0 | PSave 1 => True | _ => False end.
Definition okC (p : pc) : Prop :=
  match p with PLoad | PLock 0 | PReload | PRelease (Served 1) | PDone (Served 1) => True | _ => False end.

(* three phases: before the provider call, between the call and the store write, after it *)
Definition phaseA (s : state) : Prop :=
  store s = Some 0 /\ cur s = 0 /\ succ s = 0 /\ forall t, okA (pcs s t).
Definition phaseB (s : state) : Prop :=
  store s = Some 0 /\ cur s = 1 /\ succ s = 1 /\ (forall t, okB (pcs s t)) /\ exists h, pcs s h = PSave 1.
Definition phaseC (s : state) : Prop :=
  store s = Some 1 /\ cur s = 1 /\ succ s = 1 /\ forall t, okC (pcs s t).

Definition Inv (s : state) : Prop :=
  reuse s = 0 /\ lock_ok s /\ (phaseA s \/ phaseB s \/ phaseC s).

Lemma upd_same f t p : upd f t p t = p.
Proof. unfold upd. rewrite Nat.eqb_refl. reflexivity. Qed.

Lemma upd_other f t p t' : t' <> t -> upd f t p t' = f t'.
Proof. intro H. unfold upd. destruct (Nat.eqb_spec t' t); [contradiction|reflexivity]. Qed.

Lemma inv_init : Inv init.
Proof.
  unfold Inv, init. simpl. split; [reflexivity|]. split.
  - intro t. simpl. split; discriminate.
  - left. unfold phaseA. simpl. repeat split; auto.
Qed.

(* at most one request is in the critical section *)
Lemma critical_unique s t t' :
  lock_ok s -> critical (pcs s t) = true -> critical (pcs s t') = true -> t = t'.
Proof.
  intros H H1 H2. apply H in H1. apply H in H2. congruence.
Qed.

Ltac upd_cases t t' := destruct (Nat.eq_dec t' t) as [->|?]; [rewrite !upd_same | rewrite !upd_other by assumption].

(* lock discipline is preserved when the stepping request stays non-critical or stays critical *)
Lemma lock_ok_same_class s t p :
  lock_ok s -> critical p = critical (pcs s t) ->
  lock_ok {| store := store s; lock := lock s; cur := cur s; succ := succ s; reuse := reuse s; pcs := upd (pcs s) t p |}.
Proof.
  intros H Hc t'. simpl. upd_cases t t'; [rewrite Hc|]; apply H.
Qed.

Lemma inv_step s t s' : Inv s -> step s t = Some s' -> Inv s'.
Proof.
  intros (Hr & Hl & Hph) Hs. unfold step in Hs.
  destruct (pcs s t) as [|l| |l|l|r|r] eqn:Hpc.
  - (* PLoad *)
    assert (Hnc : critical (pcs s t) = false) by (rewrite Hpc; reflexivity).
    destruct Hph as [(Hst & Hc & Hsu & Hok)|[(Hst & Hc & Hsu & Hok & Hex)|(Hst & Hc & Hsu & Hok)]];
      rewrite Hst in Hs; simpl in Hs; inversion Hs; subst s'; clear Hs; unfold set_pc;
      (split; [exact Hr|]); (split; [apply lock_ok_same_class; [exact Hl|rewrite Hpc; reflexivity]|]).
    + left. unfold phaseA. simpl. repeat split; auto. intro t'. upd_cases t t'; [exact I|apply Hok].
    + right. left. unfold phaseB. simpl. repeat split; auto.
      * intro t'. upd_cases t t'; [exact I|apply Hok].
      * destruct Hex as (h & Hh). exists h. rewrite upd_other; [exact Hh|]. intro E. subst h. congruence.
    + right. right. unfold phaseC. simpl. repeat split; auto. intro t'. upd_cases t t'; [exact I|apply Hok].
  - (* PLock *)
    destruct (lock s) as [h|] eqn:Hlk; [discriminate|]. inversion Hs; subst s'; clear Hs.
    assert (Hnone : forall t', critical (pcs s t') = false).
    { intro t'. destruct (critical (pcs s t')) eqn:E; [|reflexivity]. apply Hl in E. congruence. }
    split; [exact Hr|]. split.
    + intro t'. simpl. upd_cases t t'.
      * split; reflexivity.
      * rewrite Hnone. split; [discriminate|]. intro E. inversion E. congruence.
    + destruct Hph as [(Hst & Hc & Hsu & Hok)|[(Hst & Hc & Hsu & Hok & Hex)|(Hst & Hc & Hsu & Hok)]].
      * left. unfold phaseA. simpl. repeat split; auto. intro t'. upd_cases t t'; [exact I|apply Hok].
      * destruct Hex as (h & Hh). specialize (Hnone h). rewrite Hh in Hnone. discriminate.
      * right. right. unfold phaseC. simpl. repeat split; auto. intro t'. upd_cases t t'; [exact I|apply Hok].
  - (* PReload *)
    destruct Hph as [(Hst & Hc & Hsu & Hok)|[(Hst & Hc & Hsu & Hok & Hex)|(Hst & Hc & Hsu & Hok)]].
    + rewrite Hst in Hs. simpl in Hs. inversion Hs; subst s'; clear Hs. unfold set_pc.
      split; [exact Hr|]. split; [apply lock_ok_same_class; [exact Hl|rewrite Hpc; reflexivity]|].
      left. unfold phaseA. simpl. repeat split; auto. intro t'. upd_cases t t'; [exact I|apply Hok].
    + specialize (Hok t). rewrite Hpc in Hok. destruct Hok.
    + rewrite Hst in Hs. simpl in Hs. inversion Hs; subst s'; clear Hs. unfold set_pc.
      split; [exact Hr|]. split; [apply lock_ok_same_class; [exact Hl|rewrite Hpc; reflexivity]|].
      right. right. unfold phaseC. simpl. repeat split; auto. intro t'. upd_cases t t'; [exact I|apply Hok].
  - (* PRefresh *)
    destruct Hph as [(Hst & Hc & Hsu & Hok)|[(Hst & Hc & Hsu & Hok & Hex)|(Hst & Hc & Hsu & Hok)]].
    + pose proof (Hok t) as Ht. rewrite Hpc in Ht. destruct l; [|destruct Ht].
      rewrite Hc in Hs. simpl in Hs. inversion Hs; subst s'; clear Hs.
      split; [exact Hr|]. split.
      * intro t'. simpl. upd_cases t t'; [|apply Hl]. specialize (Hl t). rewrite Hpc in Hl. exact Hl.
      * right. left. unfold phaseB. simpl. rewrite ?Hc, ?Hsu.
        split; [exact Hst|]. split; [reflexivity|]. split; [reflexivity|]. split.
        -- intro t'. upd_cases t t'; [exact I|].
           pose proof (Hok t') as Hk. destruct (pcs s t') as [|l'| |l'|l'|r'|r'] eqn:E; try exact I; try exact Hk; try (destruct Hk; fail).
           ++ exfalso. apply n. symmetry. apply (critical_unique s t t' Hl); [rewrite Hpc|rewrite E]; reflexivity.
           ++ exfalso. apply n. symmetry. apply (critical_unique s t t' Hl); [rewrite Hpc|rewrite E]; reflexivity.
        -- exists t. apply upd_same.
    + specialize (Hok t). rewrite Hpc in Hok. destruct Hok.
    + specialize (Hok t). rewrite Hpc in Hok. destruct Hok.
  - (* PSave *)
    inversion Hs; subst s'; clear Hs.
    destruct Hph as [(Hst & Hc & Hsu & Hok)|[(Hst & Hc & Hsu & Hok & Hex)|(Hst & Hc & Hsu & Hok)]].
    + specialize (Hok t). rewrite Hpc in Hok. destruct Hok.
    + pose proof (Hok t) as Ht. rewrite Hpc in Ht. destruct l as [|[|l]]; try destruct Ht.
      split; [exact Hr|]. split.
      * intro t'. simpl. upd_cases t t'; [|apply Hl]. specialize (Hl t). rewrite Hpc in Hl. exact Hl.
      * right. right. unfold phaseC. simpl. repeat split; auto.
        intro t'. upd_cases t t'; [exact I|].
        pose proof (Hok t') as Hk. destruct (pcs s t') as [|l'| |l'|l'|r'|r'] eqn:E; try exact I; try exact Hk; try (destruct Hk; fail).
        exfalso. apply n. symmetry. apply (critical_unique s t t' Hl); [rewrite Hpc|rewrite E]; reflexivity.
    + specialize (Hok t). rewrite Hpc in Hok. destruct Hok.
  - (* PRelease *)
    inversion Hs; subst s'; clear Hs.
    assert (Hh : lock s = Some t) by (apply Hl; rewrite Hpc; reflexivity).
    destruct Hph as [(Hst & Hc & Hsu & Hok)|[(Hst & Hc & Hsu & Hok & Hex)|(Hst & Hc & Hsu & Hok)]].
    + specialize (Hok t). rewrite Hpc in Hok. destruct Hok.
    + specialize (Hok t). rewrite Hpc in Hok. destruct Hok.
    + pose proof (Hok t) as Ht. rewrite Hpc in Ht.
      split; [exact Hr|]. split.
      * intro t'. simpl. rewrite Hh, Nat.eqb_refl. upd_cases t t'.
        -- split; discriminate.
        -- split; [|discriminate]. intro E. exfalso. apply n. symmetry.
           apply (critical_unique s t t' Hl); [rewrite Hpc; reflexivity|exact E].
      * right. right. unfold phaseC. simpl. repeat split; auto.
        intro t'. upd_cases t t'; [|apply Hok]. destruct r as [[|[|v]]|]; try destruct Ht. exact I.
  - discriminate.
Qed.

Lemma inv_reachable s : reachable s -> Inv s.
Proof. induction 1 as [|s t s' _ IH Hs]; [apply inv_init|eapply inv_step; eassumption]. Qed.

(* For ANY number of concurrent requests and ANY interleaving of their store / lock / provider
   operations (no lock expiry): the provider sees at most one refresh and never a consumed token;
   every request that has finished was served with the refreshed session; and once any request has
   finished exactly one refresh has happened. *)
Theorem once_per_epoch s :
  reachable s ->
  succ s <= 1 /\ reuse s = 0 /\
  (forall t r, pcs s t = PDone r -> r = Served 1 /\ succ s = 1 /\ store s = Some 1).
Proof.
  intro H. apply inv_reachable in H as (Hr & _ & Hph). split; [|split; [exact Hr|]].
  - destruct Hph as [(_ & _ & Hsu & _)|[(_ & _ & Hsu & _)|(_ & _ & Hsu & _)]]; lia.
  - intros t r Hd.
    destruct Hph as [(_ & _ & _ & Hok)|[(_ & _ & _ & Hok & _)|(Hst & _ & Hsu & Hok)]];
      specialize (Hok t); rewrite Hd in Hok; try destruct Hok.
    destruct r as [[|[|v]]|]; try destruct Hok. auto.
Qed.

(* `run` only visits reachable states *)
Lemma run_reachable sched : forall s, reachable s -> reachable (run s sched).
Proof.
  induction sched as [|t rest IH]; intros s H; simpl; [exact H|].
  destruct (step s t) as [s'|] eqn:E; [apply IH; eapply r_step; eassumption|apply IH; exact H].
Qed.

(* a request that never touches a stale session does not call the provider: the stale session is
   never served without a refresh in this epoch (sequential reading) *)
Theorem never_stale s t v : reachable s -> pcs s t = PDone (Served v) -> fresh v = true.
Proof.
  intros H Hd. destruct (once_per_epoch s H) as (_ & _ & Hf). destruct (Hf t _ Hd) as (E & _). inversion E. reflexivity.
Qed.

(* the proviso matters: with a lock-expiry step two requests refresh, the second with a consumed
   token - the documented edge of the property, exhibited as a concrete trace *)
Example expiry_boundary :
  let s1 := run init [0; 0; 0; 0] in            (* request 0: load, lock, reload, refresh -> at PSave *)
  let s2 := expire_lock s1 in                   (* the lock expires while 0 has not saved yet *)
  let s3 := run s2 [1; 1; 1; 1] in              (* request 1: load (stale), lock, reload (stale), refresh *)
  succ s3 = 1 /\ reuse s3 = 1.
Proof. vm_compute. split; reflexivity. Qed.

(* non-vacuity: three requests under an interleaved schedule all end served with version 1 *)
Example three_requests :
  let s := run init [0; 1; 2; 0; 1; 0; 0; 0; 0; 1; 1; 1; 2; 2; 2; 2] in
  pcs s 0 = PDone (Served 1) /\ pcs s 1 = PDone (Served 1) /\ pcs s 2 = PDone (Served 1) /\ succ s = 1.
Proof. vm_compute. repeat split. Qed.

(* sequential reading: a stale session is used only after a successful refresh or a successful
   re-validation; otherwise the request is unauthenticated and the cookie is cleared *)
Theorem seq_never_stale stale has_rt refresh_ok valid_old valid_new o called cleared :
  seq_refresh stale has_rt refresh_ok valid_old valid_new = (o, called, cleared) ->
  stale = true ->
  (o = SeqServedNew /\ has_rt = true /\ refresh_ok = true /\ valid_new = true /\ cleared = false) \/
  (o = SeqServedOld /\ valid_old = true /\ cleared = false) \/
  (o = SeqUnauth /\ cleared = true).
Proof.
  intros H Hs. subst stale. unfold seq_refresh in H. simpl in H.
  destruct has_rt, refresh_ok, valid_old, valid_new; simpl in H; inversion H; subst; auto 10.
Qed.

Theorem seq_fresh_untouched has_rt refresh_ok valid_old valid_new :
  seq_refresh false has_rt refresh_ok valid_old valid_new = (SeqServedOld, false, false).
Proof. reflexivity. Qed.
