From Coq Require Import List Bool Arith Lia.
Import ListNotations.
From V.Model Require Import RefreshChain.

(* every refresh of a chain of any length succeeds, whatever responses carry an ID token, and the session
   ends with the access and refresh token of the last generation *)
Theorem chain_never_presents_consumed_token flags : forall cur s,
  t_refresh s = cur ->
  exists s', chain_run (cur, s) flags = Some (cur + length flags, s') /\
             t_refresh s' = cur + length flags /\
             (flags <> [] -> t_access s' = cur + length flags).
Proof.
  induction flags as [|f flags IH]; intros cur s Hs.
  - exists s. simpl. rewrite Nat.add_0_r. repeat split; auto. intro H. contradiction.
  - cbn [chain_run chain_step]. unfold provider_refresh. rewrite Hs, Nat.eqb_refl.
    set (s1 := apply_refresh s (S cur) (S cur) (if f then Some (S cur) else None)).
    destruct (IH (S cur) s1 eq_refl) as (s' & Hr & H1 & H2).
    exists s'. cbn [length]. replace (cur + S (length flags)) with (S cur + length flags) by lia.
    split; [exact Hr|]. split; [exact H1|]. intros _.
    destruct flags as [|g flags'].
    + simpl in Hr. inversion Hr; subst s'. simpl. lia.
    + apply H2. discriminate.
Qed.

(* keeping the old refresh token when the response has no ID token breaks the second refresh *)
Example stale_refresh_token_breaks_the_chain :
  let keep_rt_without_id (s : tokens) a r (i : option nat) :=
    {| t_access := a; t_refresh := match i with Some _ => r | None => t_refresh s end;
       t_id := match i with Some x => x | None => t_id s end |} in
  let step st (f : bool) := let '(cur, s) := st in
    match provider_refresh cur (t_refresh s) f with
    | Some (c, a, r, i) => Some (c, keep_rt_without_id s a r i) | None => None end in
  match step (0, {| t_access := 0; t_refresh := 0; t_id := 0 |}) false with
  | Some st1 => step st1 false = None
  | None => False
  end.
Proof. reflexivity. Qed.
