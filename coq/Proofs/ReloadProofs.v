(* C20: well-locked event programs are data-race free, for any number of goroutines and any
   interleaving. *)
From Coq Require Import List Arith Bool Lia.
Import ListNotations.
From V.Gen Require Import SyncProgs.
From V.Model Require Import Reload.

Section DRF.
  Variable progs : list (list ev).
  Variable assign : nat -> list ev.
  Hypothesis assign_ok : forall t, In (assign t) progs \/ assign t = [].
  Hypothesis progs_ok : all_well_locked progs = true.

  Let need := needs_lock progs.

  Definition suffix_of_prog (r : list ev) : Prop :=
    r = [] \/ exists p pre, In p progs /\ p = pre ++ r.

  Definition J (s : gstate) : Prop :=
    (forall t, held (ths s t) = MW <-> writer s = Some t) /\
    (forall t, held (ths s t) = MR <-> In t (readers s)) /\
    (writer s <> None -> readers s = []) /\
    (forall t, well_locked need (held (ths s t)) (rest (ths s t)) = true) /\
    (forall t, suffix_of_prog (rest (ths s t))).

  Lemma upd_t_same f t x : upd_t f t x t = x.
  Proof. unfold upd_t. rewrite Nat.eqb_refl. reflexivity. Qed.
  Lemma upd_t_other f t x t' : t' <> t -> upd_t f t x t' = f t'.
  Proof. intro H. unfold upd_t. destruct (Nat.eqb_spec t' t); [contradiction|reflexivity]. Qed.

  Lemma suffix_tail e r : suffix_of_prog (e :: r) -> suffix_of_prog r.
  Proof.
    intros [H|(p & pre & Hin & Hp)]; [discriminate|].
    right. exists p, (pre ++ [e]). split; [exact Hin|]. rewrite <- app_assoc. exact Hp.
  Qed.

  Lemma J_init : J (initial assign).
  Proof.
    unfold J, initial. simpl. repeat split; try discriminate; try contradiction.
    - intro t. destruct (assign_ok t) as [Hin|E].
      + unfold all_well_locked in progs_ok. rewrite forallb_forall in progs_ok. apply progs_ok. exact Hin.
      + rewrite E. reflexivity.
    - intro t. destruct (assign_ok t) as [Hin|E]; [right; exists (assign t), []; auto|left; exact E].
  Qed.

  Lemma in_remove_nat t t' l : t' <> t -> (In t' (remove_nat t l) <-> In t' l).
  Proof.
    intro H. unfold remove_nat. rewrite filter_In. split; [tauto|]. intro Hin. split; [exact Hin|].
    destruct (Nat.eqb_spec t' t); [contradiction|reflexivity].
  Qed.

  Lemma not_in_remove_nat t l : ~ In t (remove_nat t l).
  Proof. unfold remove_nat. rewrite filter_In. intros [_ H]. rewrite Nat.eqb_refl in H. discriminate. Qed.

  Lemma J_step s t s' : J s -> step s t s' -> J s'.
  Proof.
    intros (J1 & J2 & J3 & J4 & J5) Hs.
    assert (Wt := J4 t). assert (St := J5 t).
    inversion Hs; subst; simpl in *;
      match goal with Hr : rest (ths s t) = _ |- _ => rewrite Hr in Wt, St end.
    - (* lock *)
      match goal with Hh : held (ths s t) = MNone |- _ => rewrite Hh in Wt end. simpl in Wt.
      unfold J. simpl. split; [|split; [|split; [|split]]].
      + intro t'. destruct (Nat.eq_dec t' t) as [->|Hn]; [rewrite upd_t_same; simpl; tauto|].
        rewrite upd_t_other by exact Hn. split.
        * intro Hm. apply J1 in Hm. congruence.
        * intro E. inversion E. congruence.
      + intro t'. destruct (Nat.eq_dec t' t) as [->|Hn]; [rewrite upd_t_same; simpl; split; [discriminate|contradiction]|].
        rewrite upd_t_other by exact Hn. rewrite J2. match goal with Hr : readers s = [] |- _ => rewrite Hr end. tauto.
      + reflexivity.
      + intro t'. destruct (Nat.eq_dec t' t) as [->|Hn]; [rewrite upd_t_same; exact Wt|rewrite upd_t_other by exact Hn; apply J4].
      + intro t'. destruct (Nat.eq_dec t' t) as [->|Hn]; [rewrite upd_t_same; simpl; eapply suffix_tail; exact St|rewrite upd_t_other by exact Hn; apply J5].
    - (* unlock *)
      match goal with Hh : held (ths s t) = MW |- _ => rewrite Hh in Wt; pose proof (proj1 (J1 t) Hh) as Hw end. simpl in Wt.
      unfold J. simpl. split; [|split; [|split; [|split]]].
      + intro t'. destruct (Nat.eq_dec t' t) as [->|Hn]; [rewrite upd_t_same; simpl; split; discriminate|].
        rewrite upd_t_other by exact Hn. split; [|discriminate]. intro Hm. apply J1 in Hm. congruence.
      + intro t'. destruct (Nat.eq_dec t' t) as [->|Hn]; [|rewrite upd_t_other by exact Hn; apply J2].
        rewrite upd_t_same. simpl. split; [discriminate|]. intro Hin. apply J2 in Hin. congruence.
      + congruence.
      + intro t'. destruct (Nat.eq_dec t' t) as [->|Hn]; [rewrite upd_t_same; exact Wt|rewrite upd_t_other by exact Hn; apply J4].
      + intro t'. destruct (Nat.eq_dec t' t) as [->|Hn]; [rewrite upd_t_same; simpl; eapply suffix_tail; exact St|rewrite upd_t_other by exact Hn; apply J5].
    - (* rlock *)
      match goal with Hh : held (ths s t) = MNone |- _ => rewrite Hh in Wt end. simpl in Wt.
      unfold J. simpl. split; [|split; [|split; [|split]]].
      + intro t'. destruct (Nat.eq_dec t' t) as [->|Hn]; [rewrite upd_t_same; simpl; split; discriminate|].
        rewrite upd_t_other by exact Hn. split; [|discriminate]. intro Hm. apply J1 in Hm. congruence.
      + intro t'. destruct (Nat.eq_dec t' t) as [->|Hn]; [rewrite upd_t_same; simpl; tauto|].
        rewrite upd_t_other by exact Hn. rewrite J2. split; [auto|intros [E|E]; [congruence|exact E]].
      + congruence.
      + intro t'. destruct (Nat.eq_dec t' t) as [->|Hn]; [rewrite upd_t_same; exact Wt|rewrite upd_t_other by exact Hn; apply J4].
      + intro t'. destruct (Nat.eq_dec t' t) as [->|Hn]; [rewrite upd_t_same; simpl; eapply suffix_tail; exact St|rewrite upd_t_other by exact Hn; apply J5].
    - (* runlock *)
      match goal with Hh : held (ths s t) = MR |- _ => rewrite Hh in Wt; pose proof (proj1 (J2 t) Hh) as Hin end. simpl in Wt.
      assert (Hwn : writer s = None).
      { destruct (writer s) eqn:E; [|reflexivity]. rewrite J3 in Hin by discriminate. destruct Hin. }
      unfold J. simpl. split; [|split; [|split; [|split]]].
      + intro t'. destruct (Nat.eq_dec t' t) as [->|Hn]; [rewrite upd_t_same; simpl; rewrite Hwn; split; discriminate|].
        rewrite upd_t_other by exact Hn. apply J1.
      + intro t'. destruct (Nat.eq_dec t' t) as [->|Hn].
        * rewrite upd_t_same. simpl. split; [discriminate|]. intro Hx. exfalso. eapply not_in_remove_nat. exact Hx.
        * rewrite upd_t_other by exact Hn. rewrite in_remove_nat by exact Hn. apply J2.
      + rewrite Hwn. congruence.
      + intro t'. destruct (Nat.eq_dec t' t) as [->|Hn]; [rewrite upd_t_same; exact Wt|rewrite upd_t_other by exact Hn; apply J4].
      + intro t'. destruct (Nat.eq_dec t' t) as [->|Hn]; [rewrite upd_t_same; simpl; eapply suffix_tail; exact St|rewrite upd_t_other by exact Hn; apply J5].
    - (* plain / atomic access *)
      assert (Wr : well_locked need (held (ths s t)) r = true).
      { destruct e; try contradiction; simpl in Wt; try (apply andb_true_iff in Wt as [_ Wt]); exact Wt. }
      unfold J. simpl. split; [|split; [|split; [|split]]].
      + intro t'. destruct (Nat.eq_dec t' t) as [->|Hn]; [rewrite upd_t_same; simpl; apply J1|rewrite upd_t_other by exact Hn; apply J1].
      + intro t'. destruct (Nat.eq_dec t' t) as [->|Hn]; [rewrite upd_t_same; simpl; apply J2|rewrite upd_t_other by exact Hn; apply J2].
      + exact J3.
      + intro t'. destruct (Nat.eq_dec t' t) as [->|Hn]; [rewrite upd_t_same; exact Wr|rewrite upd_t_other by exact Hn; apply J4].
      + intro t'. destruct (Nat.eq_dec t' t) as [->|Hn]; [rewrite upd_t_same; simpl; eapply suffix_tail; exact St|rewrite upd_t_other by exact Hn; apply J5].
    - (* return, continue *)
      assert (Hm : held (ths s t) = MNone /\ well_locked need MNone r = true).
      { simpl in Wt. destruct (held (ths s t)); try discriminate. auto. }
      destruct Hm as [Hm Wr].
      unfold J. simpl. split; [|split; [|split; [|split]]].
      + intro t'. destruct (Nat.eq_dec t' t) as [->|Hn]; [rewrite upd_t_same; simpl; apply J1|rewrite upd_t_other by exact Hn; apply J1].
      + intro t'. destruct (Nat.eq_dec t' t) as [->|Hn]; [rewrite upd_t_same; simpl; apply J2|rewrite upd_t_other by exact Hn; apply J2].
      + exact J3.
      + intro t'. destruct (Nat.eq_dec t' t) as [->|Hn]; [rewrite upd_t_same; simpl; rewrite Hm; exact Wr|rewrite upd_t_other by exact Hn; apply J4].
      + intro t'. destruct (Nat.eq_dec t' t) as [->|Hn]; [rewrite upd_t_same; simpl; eapply suffix_tail; exact St|rewrite upd_t_other by exact Hn; apply J5].
    - (* return, stop *)
      assert (Hm : held (ths s t) = MNone).
      { simpl in Wt. destruct (held (ths s t)); try discriminate. reflexivity. }
      unfold J. simpl. split; [|split; [|split; [|split]]].
      + intro t'. destruct (Nat.eq_dec t' t) as [->|Hn]; [rewrite upd_t_same; simpl; apply J1|rewrite upd_t_other by exact Hn; apply J1].
      + intro t'. destruct (Nat.eq_dec t' t) as [->|Hn]; [rewrite upd_t_same; simpl; apply J2|rewrite upd_t_other by exact Hn; apply J2].
      + exact J3.
      + intro t'. destruct (Nat.eq_dec t' t) as [->|Hn]; [rewrite upd_t_same; simpl; rewrite Hm; reflexivity|rewrite upd_t_other by exact Hn; apply J4].
      + intro t'. destruct (Nat.eq_dec t' t) as [->|Hn]; [rewrite upd_t_same; simpl; left; reflexivity|rewrite upd_t_other by exact Hn; apply J5].
  Qed.

  Lemma J_reachable s : reachable assign s -> J s.
  Proof. induction 1 as [|s t s' _ IH Hs]; [apply J_init|eapply J_step; eassumption]. Qed.

  (* an event a goroutine is about to execute occurs in one of the programs *)
  Lemma next_event_in_progs s t e r :
    J s -> rest (ths s t) = e :: r -> exists p, In p progs /\ In e p.
  Proof.
    intros (_ & _ & _ & _ & J5) Hr. destruct (J5 t) as [E|(p & pre & Hin & Hp)]; [congruence|].
    exists p. split; [exact Hin|]. rewrite Hp, Hr. apply in_or_app. right. left. reflexivity.
  Qed.

  Lemma plain_write_needs_lock p e l :
    In p progs -> In e p -> plain_access e = Some (l, true) -> need l = true.
  Proof.
    intros Hp He Ha. unfold need, needs_lock. apply existsb_exists. exists p. split; [exact Hp|].
    unfold writes_loc. apply existsb_exists. exists e. split; [exact He|]. rewrite Ha.
    destruct l; simpl; apply Nat.eqb_refl.
  Qed.

  Lemma about_to_access s t l w :
    J s -> next_plain s t = Some (l, w) -> need l = true ->
    (w = true -> held (ths s t) = MW) /\ held (ths s t) <> MNone.
  Proof.
    intros (_ & _ & _ & J4 & _) Hn Hneed. unfold next_plain in Hn.
    specialize (J4 t). destruct (rest (ths s t)) as [|e r]; [discriminate|].
    destruct e; simpl in Hn; try discriminate; inversion Hn; subst; simpl in J4; rewrite Hneed in J4;
      apply andb_true_iff in J4 as [J4 _]; destruct (held (ths s t)); try discriminate; split; congruence.
  Qed.

  Theorem drf s : reachable assign s -> ~ race_state s.
  Proof.
    intros Hr (t1 & t2 & l & w1 & w2 & Hne & H1 & H2 & Hw).
    pose proof (J_reachable s Hr) as HJ.
    assert (Hneed : need l = true).
    { destruct Hw as [-> | ->].
      - unfold next_plain in H1. destruct (rest (ths s t1)) as [|e r] eqn:E; [discriminate|].
        destruct (next_event_in_progs s t1 e r HJ E) as (p & Hp & He). eapply plain_write_needs_lock; eauto.
      - unfold next_plain in H2. destruct (rest (ths s t2)) as [|e r] eqn:E; [discriminate|].
        destruct (next_event_in_progs s t2 e r HJ E) as (p & Hp & He). eapply plain_write_needs_lock; eauto. }
    destruct (about_to_access s t1 l w1 HJ H1 Hneed) as [A1 B1].
    destruct (about_to_access s t2 l w2 HJ H2 Hneed) as [A2 B2].
    destruct HJ as (J1 & J2 & J3 & _ & _).
    assert (Excl : forall a b, a <> b -> held (ths s a) = MW -> held (ths s b) <> MNone -> False).
    { intros a b Hab Ha Hb. apply J1 in Ha.
      destruct (held (ths s b)) eqn:Eb; [congruence| |].
      - apply J2 in Eb. rewrite J3 in Eb by congruence. destruct Eb.
      - apply J1 in Eb. congruence. }
    destruct Hw as [-> | ->].
    - apply (Excl t1 t2 Hne (A1 eq_refl) B2).
    - apply (Excl t2 t1 (fun E => Hne (eq_sym E)) (A2 eq_refl) B1).
  Qed.
End DRF.
