From Coq Require Import List Bool Lia.
Import ListNotations.
From V.Lib Require Import Bytes.
From V.Model Require Import JwtIssuers.
Open Scope N_scope.

Lemma split_on_nonempty' sep l : split_on sep l <> [].
Proof. induction l as [|x l IH]; cbn; [discriminate|]. destruct (x =? sep); [discriminate|]. destruct (split_on sep l); [congruence|discriminate]. Qed.

(* joining what split_on produced with the separator gives the string back *)
Lemma join_split_on sep l : join [sep] (split_on sep l) = l.
Proof.
  induction l as [|x l IH]; cbn [split_on]; [reflexivity|].
  destruct (split_on sep l) as [|f fs] eqn:S; [exfalso; exact (split_on_nonempty' sep l S)|].
  destruct (x =? sep) eqn:E.
  - apply N.eqb_eq in E. subst x.
    change (join [sep] ([] :: f :: fs)) with ([] ++ [sep] ++ join [sep] (f :: fs)). rewrite IH. reflexivity.
  - destruct fs as [|g gs].
    + cbn [join] in *. rewrite IH. reflexivity.
    + change (join [sep] ((x :: f) :: g :: gs)) with ((x :: f) ++ [sep] ++ join [sep] (g :: gs)).
      change (join [sep] (f :: g :: gs)) with (f ++ [sep] ++ join [sep] (g :: gs)) in IH.
      rewrite <- IH. reflexivity.
Qed.

(* a prefix without the separator stays the first field *)
Lemma split_on_prefix sep u rest : memb sep u = false -> split_on sep (u ++ sep :: rest) = u :: split_on sep rest.
Proof.
  induction u as [|x u IH]; cbn [app split_on memb]; intro H.
  - rewrite N.eqb_refl. reflexivity.
  - apply orb_false_iff in H as [H1 H2]. rewrite H1. rewrite (IH H2). reflexivity.
Qed.

(* an entry "<uri>=<audience>" whose uri holds no "=" parses to exactly (uri, audience), whatever the audience
   contains - further "=" signs included *)
Lemma parse_issuer_spec uri aud : memb eq_sign uri = false -> parse_jwt_issuer (uri ++ eq_sign :: aud) = Some (uri, aud).
Proof.
  intro H. unfold parse_jwt_issuer. rewrite (split_on_prefix eq_sign uri aud H).
  destruct (split_on eq_sign aud) as [|a rest] eqn:S; [exfalso; exact (split_on_nonempty' _ _ S)|].
  rewrite <- S. rewrite join_split_on. reflexivity.
Qed.

(* an entry without "=" is refused *)
Lemma parse_issuer_no_eq spec : memb eq_sign spec = false -> parse_jwt_issuer spec = None.
Proof.
  intro H. unfold parse_jwt_issuer.
  assert (split_on eq_sign spec = [spec]) as ->; [|reflexivity].
  induction spec as [|x l IH]; cbn [split_on memb] in *; [reflexivity|].
  apply orb_false_iff in H as [H1 H2]. rewrite H1, (IH H2). reflexivity.
Qed.
