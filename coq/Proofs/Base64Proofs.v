(* encoding/base64 model: decode (encode x) = Some x for byte strings, all four codecs. *)
From V.Lib Require Import Bytes Base64.
From Coq Require Import ZifyN ZifyNat ZifyBool.
Ltac Zify.zify_post_hook ::= Z.div_mod_to_equations.
Open Scope N_scope.

Definition sextets : list N := List.map N.of_nat (seq 0 64).

Lemma in_sextets v : v < 64 -> In v sextets.
Proof.
  intro H. unfold sextets. apply in_map_iff. exists (N.to_nat v). split; [lia|].
  apply in_seq. lia.
Qed.

Lemma dec_enc_char a v : v < 64 -> dec_char a (enc_char a v) = Some v.
Proof.
  intro H. apply in_sextets in H.
  assert (A : forallb (fun v => match dec_char a (enc_char a v) with Some w => w =? v | None => false end) sextets = true)
    by (destruct a; vm_compute; reflexivity).
  rewrite forallb_forall in A. specialize (A v H).
  destruct (dec_char a (enc_char a v)); [|discriminate]. apply N.eqb_eq in A. congruence.
Qed.

Lemma enc_char_plain a v : v < 64 ->
  not_crlf (enc_char a v) = true /\ (enc_char a v =? pad) = false.
Proof.
  intro H. apply in_sextets in H.
  assert (A : forallb (fun v => not_crlf (enc_char a v) && negb (enc_char a v =? pad)) sextets = true)
    by (destruct a; vm_compute; reflexivity).
  rewrite forallb_forall in A. specialize (A v H). apply andb_true_iff in A as [A1 A2].
  split; [exact A1|]. destruct (enc_char a v =? pad); [discriminate|reflexivity].
Qed.

Lemma dec_pad a : dec_char a pad = None.
Proof. destruct a; reflexivity. Qed.

Lemma q3_roundtrip x y z : x < 256 -> y < 256 -> z < 256 ->
  q3 (x / 4) ((x mod 4) * 16 + y / 16) ((y mod 16) * 4 + z / 64) (z mod 64) = [x; y; z].
Proof.
  intros Hx Hy Hz. unfold q3. f_equal; [|f_equal; [|f_equal]]; lia.
Qed.

Lemma sextet_bounds x y z : x < 256 -> y < 256 -> z < 256 ->
  x / 4 < 64 /\ (x mod 4) * 16 + y / 16 < 64 /\ (y mod 16) * 4 + z / 64 < 64 /\ z mod 64 < 64 /\
  (x mod 4) * 16 < 64 /\ (y mod 16) * 4 < 64.
Proof. intros. repeat split; lia. Qed.

(* the encoder's output contains no CR/LF, so the decoder's filter is the identity on it *)
Lemma encode_no_crlf a padded : forall n l, (length l <= n)%nat -> is_bytes l ->
  filter not_crlf (encode a padded l) = encode a padded l.
Proof.
  induction n as [|n IH]; intros l Hn Hb.
  - destruct l; [reflexivity|simpl in Hn; lia].
  - destruct l as [|x [|y [|z l']]].
    + reflexivity.
    + inversion Hb as [|? ? Hx _]; subst.
      destruct (sextet_bounds x 0 0 Hx) as (B0 & _ & _ & _ & B4 & _); try lia.
      cbn [encode app filter].
      destruct (enc_char_plain a _ B0) as [-> _]. destruct (enc_char_plain a _ B4) as [-> _].
      destruct padded; reflexivity.
    + inversion Hb as [|? ? Hx Hb1]; subst. inversion Hb1 as [|? ? Hy _]; subst.
      destruct (sextet_bounds x y 0 Hx Hy) as (B0 & B1 & _ & _ & _ & B5); try lia.
      cbn [encode app filter].
      destruct (enc_char_plain a _ B0) as [-> _]. destruct (enc_char_plain a _ B1) as [-> _].
      destruct (enc_char_plain a _ B5) as [-> _].
      destruct padded; reflexivity.
    + inversion Hb as [|? ? Hx Hb1]; subst. inversion Hb1 as [|? ? Hy Hb2]; subst.
      inversion Hb2 as [|? ? Hz Hb3]; subst.
      destruct (sextet_bounds x y z Hx Hy Hz) as (B0 & B1 & B2 & B3 & _ & _).
      cbn [encode filter].
      destruct (enc_char_plain a _ B0) as [-> _]. destruct (enc_char_plain a _ B1) as [-> _].
      destruct (enc_char_plain a _ B2) as [-> _]. destruct (enc_char_plain a _ B3) as [-> _].
      rewrite IH; [reflexivity| simpl in Hn; lia | exact Hb3].
Qed.

Lemma decode_q_encode a padded : forall n l, (length l <= n)%nat -> is_bytes l ->
  decode_q a padded (encode a padded l) = Some l.
Proof.
  induction n as [|n IH]; intros l Hn Hb.
  - destruct l; [reflexivity|simpl in Hn; lia].
  - destruct l as [|x [|y [|z l']]].
    + reflexivity.
    + inversion Hb as [|? ? Hx _]; subst.
      destruct (sextet_bounds x 0 0 Hx) as (B0 & _ & _ & _ & B4 & _); try lia.
      cbn [encode app]. destruct padded; cbn [decode_q app].
      * rewrite (dec_enc_char a _ B0), (dec_enc_char a _ B4). rewrite dec_pad.
        rewrite N.eqb_refl. cbn [andb]. f_equal. f_equal. lia.
      * rewrite (dec_enc_char a _ B0), (dec_enc_char a _ B4). f_equal. f_equal. lia.
    + inversion Hb as [|? ? Hx Hb1]; subst. inversion Hb1 as [|? ? Hy _]; subst.
      destruct (sextet_bounds x y 0 Hx Hy) as (B0 & B1 & _ & _ & _ & B5); try lia.
      cbn [encode app]. destruct padded; cbn [decode_q app].
      * rewrite (dec_enc_char a _ B0), (dec_enc_char a _ B1), (dec_enc_char a _ B5). rewrite dec_pad.
        rewrite N.eqb_refl. cbn [andb]. f_equal. f_equal; [|f_equal]; lia.
      * rewrite (dec_enc_char a _ B0), (dec_enc_char a _ B1), (dec_enc_char a _ B5).
        f_equal. f_equal; [|f_equal]; lia.
    + inversion Hb as [|? ? Hx Hb1]; subst. inversion Hb1 as [|? ? Hy Hb2]; subst.
      inversion Hb2 as [|? ? Hz Hb3]; subst.
      destruct (sextet_bounds x y z Hx Hy Hz) as (B0 & B1 & B2 & B3 & _ & _).
      cbn [encode decode_q].
      rewrite (dec_enc_char a _ B0), (dec_enc_char a _ B1), (dec_enc_char a _ B2), (dec_enc_char a _ B3).
      rewrite IH; [| simpl in Hn; lia | exact Hb3].
      rewrite q3_roundtrip by assumption. reflexivity.
Qed.

Theorem decode_encode a padded l : is_bytes l -> decode a padded (encode a padded l) = Some l.
Proof.
  intro Hb. unfold decode. rewrite (encode_no_crlf a padded (length l)); auto.
  apply (decode_q_encode a padded (length l)); auto.
Qed.

Corollary url_roundtrip l : is_bytes l -> url_decode (url_encode l) = Some l.
Proof. apply decode_encode. Qed.
Corollary rawurl_roundtrip l : is_bytes l -> rawurl_decode (rawurl_encode l) = Some l.
Proof. apply decode_encode. Qed.
Corollary std_roundtrip l : is_bytes l -> std_decode (std_encode l) = Some l.
Proof. apply decode_encode. Qed.

(* the encoder emits only alphabet characters and '=': in particular never '|' *)
Lemma enc_char_alpha a v : v < 64 -> is_b64url_char (enc_char a v) = true \/ a = Std.
Proof.
  intro H. destruct a; [right; reflexivity|left].
  apply in_sextets in H.
  assert (A : forallb (fun v => is_b64url_char (enc_char Url v)) sextets = true) by (vm_compute; reflexivity).
  rewrite forallb_forall in A. exact (A v H).
Qed.

Lemma url_encode_chars : forall n l, (length l <= n)%nat -> is_bytes l ->
  forallb is_b64url_char (encode Url true l) = true.
Proof.
  induction n as [|n IH]; intros l Hn Hb.
  - destruct l; [reflexivity|simpl in Hn; lia].
  - assert (E : forall v, v < 64 -> is_b64url_char (enc_char Url v) = true).
    { intros v Hv. destruct (enc_char_alpha Url v Hv) as [H|H]; [exact H|discriminate]. }
    destruct l as [|x [|y [|z l']]].
    + reflexivity.
    + inversion Hb as [|? ? Hx _]; subst.
      destruct (sextet_bounds x 0 0 Hx) as (B0 & _ & _ & _ & B4 & _); try lia.
      cbn [encode app forallb]. rewrite (E _ B0), (E _ B4). reflexivity.
    + inversion Hb as [|? ? Hx Hb1]; subst. inversion Hb1 as [|? ? Hy _]; subst.
      destruct (sextet_bounds x y 0 Hx Hy) as (B0 & B1 & _ & _ & _ & B5); try lia.
      cbn [encode app forallb]. rewrite (E _ B0), (E _ B1), (E _ B5). reflexivity.
    + inversion Hb as [|? ? Hx Hb1]; subst. inversion Hb1 as [|? ? Hy Hb2]; subst.
      inversion Hb2 as [|? ? Hz Hb3]; subst.
      destruct (sextet_bounds x y z Hx Hy Hz) as (B0 & B1 & B2 & B3 & _ & _).
      cbn [encode forallb]. rewrite (E _ B0), (E _ B1), (E _ B2), (E _ B3).
      rewrite IH; [reflexivity| simpl in Hn; lia | exact Hb3].
Qed.

(* the error-ignoring decoder agrees with the strict one on encoder output *)
Lemma decode_partial_q_encode a : forall n l, (length l <= n)%nat -> is_bytes l ->
  decode_partial_q a (encode a false l) = l.
Proof.
  induction n as [|n IH]; intros l Hn Hb.
  - destruct l; [reflexivity|simpl in Hn; lia].
  - destruct l as [|x [|y [|z l']]].
    + reflexivity.
    + inversion Hb as [|? ? Hx _]; subst.
      destruct (sextet_bounds x 0 0 Hx) as (B0 & _ & _ & _ & B4 & _); try lia.
      cbn [encode app decode_partial_q].
      rewrite (dec_enc_char a _ B0), (dec_enc_char a _ B4). f_equal. lia.
    + inversion Hb as [|? ? Hx Hb1]; subst. inversion Hb1 as [|? ? Hy _]; subst.
      destruct (sextet_bounds x y 0 Hx Hy) as (B0 & B1 & _ & _ & _ & B5); try lia.
      cbn [encode app decode_partial_q].
      rewrite (dec_enc_char a _ B0), (dec_enc_char a _ B1), (dec_enc_char a _ B5).
      f_equal; [|f_equal]; lia.
    + inversion Hb as [|? ? Hx Hb1]; subst. inversion Hb1 as [|? ? Hy Hb2]; subst.
      inversion Hb2 as [|? ? Hz Hb3]; subst.
      destruct (sextet_bounds x y z Hx Hy Hz) as (B0 & B1 & B2 & B3 & _ & _).
      cbn [encode decode_partial_q].
      rewrite (dec_enc_char a _ B0), (dec_enc_char a _ B1), (dec_enc_char a _ B2), (dec_enc_char a _ B3).
      rewrite IH; [| simpl in Hn; lia | exact Hb3].
      rewrite q3_roundtrip by assumption. reflexivity.
Qed.

Theorem rawurl_partial_roundtrip l : is_bytes l -> rawurl_decode_partial (rawurl_encode l) = l.
Proof.
  intro Hb. unfold rawurl_decode_partial, rawurl_encode.
  rewrite (encode_no_crlf Url false (length l)); auto.
  apply (decode_partial_q_encode Url (length l)); auto.
Qed.

(* length and alphabet of unpadded encodings (PKCE verifier, RFC 7636) *)
Lemma encode_length_mult3 a padded : forall k l, length l = (3 * k)%nat -> length (encode a padded l) = (4 * k)%nat.
Proof.
  induction k as [|k IH]; intros l H.
  - destruct l; [reflexivity|simpl in H; lia].
  - destruct l as [|x [|y [|z l']]]; try (simpl in H; lia).
    cbn [encode length]. rewrite (IH l'); [lia|]. simpl in H. lia.
Qed.

Definition is_b64url_nopad (c : N) : bool := is_alnum c || (c =? 45) || (c =? 95).

Lemma enc_char_nopad v : v < 64 -> is_b64url_nopad (enc_char Url v) = true.
Proof.
  intro H. apply in_sextets in H.
  assert (A : forallb (fun v => is_b64url_nopad (enc_char Url v)) sextets = true) by (vm_compute; reflexivity).
  rewrite forallb_forall in A. exact (A v H).
Qed.

Lemma rawurl_encode_chars : forall n l, (length l <= n)%nat -> is_bytes l ->
  forallb is_b64url_nopad (encode Url false l) = true.
Proof.
  induction n as [|n IH]; intros l Hn Hb.
  - destruct l; [reflexivity|simpl in Hn; lia].
  - destruct l as [|x [|y [|z l']]].
    + reflexivity.
    + inversion Hb as [|? ? Hx _]; subst.
      destruct (sextet_bounds x 0 0 Hx) as (B0 & _ & _ & _ & B4 & _); try lia.
      cbn [encode app forallb]. rewrite (enc_char_nopad _ B0), (enc_char_nopad _ B4). reflexivity.
    + inversion Hb as [|? ? Hx Hb1]; subst. inversion Hb1 as [|? ? Hy _]; subst.
      destruct (sextet_bounds x y 0 Hx Hy) as (B0 & B1 & _ & _ & _ & B5); try lia.
      cbn [encode app forallb]. rewrite (enc_char_nopad _ B0), (enc_char_nopad _ B1), (enc_char_nopad _ B5). reflexivity.
    + inversion Hb as [|? ? Hx Hb1]; subst. inversion Hb1 as [|? ? Hy Hb2]; subst.
      inversion Hb2 as [|? ? Hz Hb3]; subst.
      destruct (sextet_bounds x y z Hx Hy Hz) as (B0 & B1 & B2 & B3 & _ & _).
      cbn [encode forallb]. rewrite (enc_char_nopad _ B0), (enc_char_nopad _ B1), (enc_char_nopad _ B2), (enc_char_nopad _ B3).
      rewrite IH; [reflexivity| simpl in Hn; lia | exact Hb3].
Qed.
