From Coq Require Import List Bool.
Import ListNotations.
From V.Lib Require Import Bytes.
From V.Model Require Import Probe.

(* with the store down nothing answers "ready" through the readiness check *)
Lemma never_ready_when_down c path ua : probe c false path ua <> ReadyOK.
Proof. unfold probe. destruct (is_health c path ua); [discriminate|]. destruct (is_ready_path c path); discriminate. Qed.

(* a request the health check does not claim, for the ready path: the answer is the store's *)
Lemma ready_reflects_store c path ua :
  is_health c path ua = false -> is_ready_path c path = true ->
  probe c false path ua = NotReady /\ probe c true path ua = ReadyOK.
Proof. intros Hh Hr. unfold probe. rewrite Hh, Hr. split; reflexivity. Qed.

Lemma str_eqb_refl x : str_eqb x x = true.
Proof. induction x as [|a x IH]; cbn; [reflexivity|]. rewrite N.eqb_refl. exact IH. Qed.

Lemma mem_filter_false x l : mem_str x l = false -> mem_str x (filter nonempty l) = false.
Proof.
  unfold mem_str. induction l as [|y l IH]; cbn; [reflexivity|]. intro H. apply orb_false_iff in H as [H1 H2].
  destruct (nonempty y); cbn; [rewrite H1; cbn|]; apply IH; exact H2.
Qed.

(* the operator's ready path, asked for by a client that is not a ping agent, while the store is down,
   is answered 500 - unless the operator listed that very path as a ping path *)
Lemma ready_path_not_shadowed c ua :
  nonempty (ready_path c) = true ->
  mem_str (ready_path c) (health_paths c) = false ->
  mem_str ua (filter nonempty (health_uas c)) = false ->
  probe c false (ready_path c) ua = NotReady /\ probe c true (ready_path c) ua = ReadyOK.
Proof.
  intros Hne Hp Hu. apply ready_reflects_store.
  - unfold is_health. rewrite (mem_filter_false _ _ Hp), Hu. reflexivity.
  - unfold is_ready_path. rewrite Hne, str_eqb_refl. reflexivity.
Qed.

(* the health check never consults the store: its answer is the same whether the store is up or down *)
Lemma alive_ignores_store c path ua : probe c false path ua = Alive <-> probe c true path ua = Alive.
Proof. unfold probe. destruct (is_health c path ua); [tauto|]. destruct (is_ready_path c path); split; discriminate. Qed.
