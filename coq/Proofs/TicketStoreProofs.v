(* The server-side store against a browser jar: what was saved last is what the next request loads,
   and nothing after a clear (C10, Redis store). *)
From V.Lib Require Import Bytes Base64 NetAddr.
From V.Gen Require Import Consts.
From V.Model Require Import Signed Cookies CookieStore Jar JarSession Ticket.
From V.Proofs Require Import Base64Proofs SignedProofs TamperProofs CookieStoreProofs ItoaProofs JarProofs.
From Coq Require Import ZifyN ZifyNat ZifyBool Lia.
Open Scope Z_scope.

Lemma nopad_no_dot (l : str) : forallb is_b64url_nopad l = true -> memb dot l = false.
Proof.
  induction l as [|x l IH]; simpl; intro H; [reflexivity|].
  apply andb_true_iff in H as [H1 H2]. rewrite (IH H2), orb_false_r.
  destruct (N.eqb_spec x dot) as [->|]; [vm_compute in H1; discriminate|reflexivity].
Qed.

Lemma nopad_is_bytes (l : str) : forallb is_b64url_nopad l = true -> is_bytes l.
Proof.
  induction l as [|x l IH]; simpl; intro H; [constructor|].
  apply andb_true_iff in H as [H1 H2]. constructor; [|apply IH; exact H2].
  unfold is_b64url_nopad, is_alnum, is_alpha, is_upper, is_lower, is_digit in H1.
  repeat rewrite orb_true_iff in H1. repeat rewrite andb_true_iff in H1.
  repeat rewrite N.leb_le in H1. repeat rewrite N.eqb_eq in H1. lia.
Qed.

Lemma rawurl_no_dot l : is_bytes l -> memb dot (rawurl_encode l) = false.
Proof. intro H. apply nopad_no_dot. apply (rawurl_encode_chars (length l)); auto. Qed.

Lemma rawurl_is_bytes l : is_bytes l -> is_bytes (rawurl_encode l).
Proof. intro H. apply nopad_is_bytes. apply (rawurl_encode_chars (length l)); auto. Qed.

(* whatever a base64 decoder returns is a byte string *)
Lemma dec_char_lt a c v : dec_char a c = Some v -> (v < 64)%N.
Proof.
  unfold dec_char, is_upper, is_lower, is_digit.
  destruct ((65 <=? c) && (c <=? 90))%N eqn:E1; [intro H; inversion H; lia|].
  destruct ((97 <=? c) && (c <=? 122))%N eqn:E2; [intro H; inversion H; lia|].
  destruct ((48 <=? c) && (c <=? 57))%N eqn:E3; [intro H; inversion H; lia|].
  destruct a.
  - destruct (c =? 43)%N; [intro H; inversion H; lia|]. destruct (c =? 47)%N; [intro H; inversion H; lia|discriminate].
  - destruct (c =? 45)%N; [intro H; inversion H; lia|]. destruct (c =? 95)%N; [intro H; inversion H; lia|discriminate].
Qed.

Lemma decode_q_bytes a padded : forall n l r, (length l <= n)%nat -> decode_q a padded l = Some r -> is_bytes r.
Proof.
  induction n as [|n IH]; intros l r Hn H.
  - destruct l; [inversion H; constructor|simpl in Hn; lia].
  - destruct l as [|c0 [|c1 [|c2 [|c3 t3]]]]; cbn [decode_q] in H.
    + inversion H; constructor.
    + destruct (dec_char a c0); discriminate.
    + destruct (dec_char a c0) as [s0|] eqn:E0; [|discriminate]. destruct (dec_char a c1) as [s1|] eqn:E1; [|discriminate].
      destruct padded; [discriminate|]. inversion H; subst r.
      pose proof (dec_char_lt _ _ _ E0). pose proof (dec_char_lt _ _ _ E1).
      constructor; [|constructor]. assert (s1 / 16 < 4)%N by (apply N.div_lt_upper_bound; lia). lia.
    + destruct (dec_char a c0) as [s0|] eqn:E0; [|discriminate]. destruct (dec_char a c1) as [s1|] eqn:E1; [|discriminate].
      destruct (dec_char a c2) as [s2|] eqn:E2; [|discriminate].
      destruct padded; [discriminate|]. inversion H; subst r.
      pose proof (dec_char_lt _ _ _ E0). pose proof (dec_char_lt _ _ _ E1). pose proof (dec_char_lt _ _ _ E2).
      assert (s1 / 16 < 4)%N by (apply N.div_lt_upper_bound; lia).
      assert (s2 / 4 < 16)%N by (apply N.div_lt_upper_bound; lia).
      assert (s1 mod 16 < 16)%N by (apply N.mod_lt; lia).
      constructor; [lia|]. constructor; [lia|constructor].
    + destruct (dec_char a c0) as [s0|] eqn:E0; [|discriminate]. destruct (dec_char a c1) as [s1|] eqn:E1; [|discriminate].
      pose proof (dec_char_lt _ _ _ E0) as B0. pose proof (dec_char_lt _ _ _ E1) as B1.
      assert (A1 : (s1 / 16 < 4)%N) by (apply N.div_lt_upper_bound; lia).
      assert (M1 : (s1 mod 16 < 16)%N) by (apply N.mod_lt; lia).
      destruct (dec_char a c2) as [s2|] eqn:E2.
      * pose proof (dec_char_lt _ _ _ E2) as B2.
        assert (A2 : (s2 / 4 < 16)%N) by (apply N.div_lt_upper_bound; lia).
        assert (M2 : (s2 mod 4 < 4)%N) by (apply N.mod_lt; lia).
        destruct (dec_char a c3) as [s3|] eqn:E3.
        -- pose proof (dec_char_lt _ _ _ E3) as B3.
           destruct (decode_q a padded t3) as [r'|] eqn:Er; [|discriminate]. inversion H; subst r.
           assert (Hr' : is_bytes r') by (apply (IH t3 r'); [simpl in Hn; lia|exact Er]).
           unfold q3. constructor; [lia|]. constructor; [lia|]. constructor; [lia|exact Hr'].
        -- destruct (padded && (c3 =? pad))%N; [|discriminate]. destruct t3; [|discriminate].
           inversion H; subst r. constructor; [lia|]. constructor; [lia|constructor].
      * destruct (padded && (c2 =? pad) && (c3 =? pad))%N; [|discriminate]. destruct t3; [|discriminate].
        inversion H; subst r. constructor; [lia|constructor].
Qed.

Lemma rawurl_decode_bytes x y : rawurl_decode x = Some y -> is_bytes y.
Proof. unfold rawurl_decode, decode. intro H. eapply decode_q_bytes; [apply Nat.le_refl|exact H]. Qed.

Lemma decode_ticket_bytes t id sec : decode_ticket t = Some (id, sec) -> is_bytes sec /\ (forall tag a b, split_on dot t = [tag; a; b] -> is_bytes id).
Proof.
  unfold decode_ticket. destruct (split_on dot t) as [|a [|b [|c [|d r]]]]; try discriminate.
  - destruct (rawurl_decode b) as [s0|] eqn:E; [|discriminate]. intro H; inversion H; subst. split; [eapply rawurl_decode_bytes; eauto|intros; discriminate].
  - destruct (str_eqb a v2_tag); [|discriminate].
    destruct (rawurl_decode b) as [i0|] eqn:Ei; [|discriminate]. destruct (rawurl_decode c) as [s0|] eqn:Es; [|discriminate].
    intro H; inversion H; subst. split; [eapply rawurl_decode_bytes; eauto|intros; eapply rawurl_decode_bytes; eauto].
Qed.

Lemma split_on_bytes sep l : is_bytes l -> Forall is_bytes (split_on sep l).
Proof.
  induction l as [|x l IH]; intro H; cbn [split_on].
  - constructor; constructor.
  - inversion H as [|? ? Hx Hl]; subst. specialize (IH Hl).
    destruct (x =? sep)%N.
    + constructor; [constructor|exact IH].
    + destruct (split_on sep l) as [|f fs]; [repeat constructor; exact Hx|].
      inversion IH as [|? ? Hf Hfs]; subst. constructor; [constructor; assumption|exact Hfs].
Qed.

Lemma ticket_from_request_bytes mac cfg cs now id sec :
  ticket_from_request mac cfg cs now = Some (id, sec) -> is_bytes id /\ is_bytes sec.
Proof.
  unfold ticket_from_request. destruct (find_cookie (c_name cfg) cs) as [v|]; [|discriminate].
  destruct (validate mac (c_name cfg) v now (c_expire_ns cfg)) as [[raw t]|] eqn:Hv; [|discriminate].
  destruct (TamperProofs.accepted_has_valid_mac mac _ _ _ _ _ _ Hv) as (ev & ts & sg & _ & _ & _ & Hd).
  assert (Hraw : is_bytes raw).
  { unfold url_decode, decode in Hd. eapply decode_q_bytes; [apply Nat.le_refl|exact Hd]. }
  intro H. unfold decode_ticket in H. pose proof (split_on_bytes dot raw Hraw) as Hs.
  destruct (split_on dot raw) as [|a [|b [|c [|d r]]]]; try discriminate.
  - destruct (rawurl_decode b) as [s0|] eqn:E; [|discriminate]. inversion H; subst.
    split; [inversion Hs; assumption|eapply rawurl_decode_bytes; eauto].
  - destruct (str_eqb a v2_tag); [|discriminate].
    destruct (rawurl_decode b) as [i0|] eqn:Ei; [|discriminate]. destruct (rawurl_decode c) as [s0|] eqn:Es; [|discriminate].
    inversion H; subst. split; eapply rawurl_decode_bytes; eauto.
Qed.

Lemma decode_encode_ticket id sec :
  is_bytes id -> is_bytes sec -> decode_ticket (encode_ticket id sec) = Some (id, sec).
Proof.
  intros Hi Hs. unfold decode_ticket, encode_ticket.
  replace (v2_tag ++ [dot] ++ rawurl_encode id ++ [dot] ++ rawurl_encode sec)
    with (v2_tag ++ dot :: (rawurl_encode id ++ dot :: rawurl_encode sec)) by reflexivity.
  rewrite split_on_app by reflexivity.
  rewrite split_on_app by (apply rawurl_no_dot; exact Hi).
  rewrite split_on_none by (apply rawurl_no_dot; exact Hs).
  rewrite str_eqb_refl. unfold rawurl_decode, rawurl_encode.
  rewrite (decode_encode Url false id Hi), (decode_encode Url false sec Hs). reflexivity.
Qed.

Lemma encode_ticket_bytes id sec : is_bytes id -> is_bytes sec -> is_bytes (encode_ticket id sec).
Proof.
  intros Hi Hs. unfold encode_ticket, is_bytes.
  assert (Hdot : Forall (fun c => (c < 256)%N) [dot]) by (constructor; [reflexivity|constructor]).
  assert (Hv2 : Forall (fun c => (c < 256)%N) v2_tag) by (vm_compute; repeat constructor).
  apply Forall_app. split; [exact Hv2|]. apply Forall_app. split; [exact Hdot|].
  apply Forall_app. split; [apply rawurl_is_bytes; exact Hi|]. apply Forall_app. split; [exact Hdot|].
  apply rawurl_is_bytes; exact Hs.
Qed.

Lemma find_none_after_name_ne n (l : list jentry) :
  find_cookie n (jar_cookies (filter (name_ne n) l)) = None.
Proof.
  unfold jar_cookies. induction l as [|e l IH]; [reflexivity|].
  cbn [filter]. unfold name_ne at 1.
  destruct (str_eqb (j_name e) n) eqn:E; cbn [negb]; [exact IH|].
  cbn [map find_cookie]. rewrite E. exact IH.
Qed.

Section TicketHistory.
  Variable mac : str -> str.
  Hypothesis mac_bytes : forall m, is_bytes (mac m).
  Variable seal : str -> str -> str.
  Variable unseal : str -> str -> option str.
  Hypothesis unseal_seal : forall sec v, unseal sec (seal sec v) = Some v.
  Variables (cfg : ccfg) (host : str).
  Let name := c_name cfg.
  Let D := select_domain host (c_domains cfg).
  Let P := c_path cfg.
  Hypothesis Hexp : 0 <= c_expire_ns cfg.

  (* the ticket cookie after a save is the one the jar presents under the configured name *)
  Lemma jar_after_ticket_cookie j value :
    dom_ok name D P j ->
    let c := make_cookie cfg host name value (c_expire_ns cfg) in
    find_cookie name (jar_cookies (jar_apply j [c])) = Some value /\ dom_ok name D P (jar_apply j [c]).
  Proof.
    intros Hd c.
    assert (Ho : ours name D P c) by (split; [apply self_session|split; reflexivity]).
    destruct (apply_family name D P [c] j Hd (Forall_cons _ Ho (Forall_nil _))) as (Hf & _ & Hd').
    split; [|exact Hd'].
    rewrite (find_family name name _ (self_session name)), Hf. cbn [fold_left]. unfold sstep.
    assert (Hm : sc_maxage c <? 0 = false).
    { cbn [c make_cookie sc_maxage]. pose proof (max_age_nonneg _ Hexp). lia. }
    rewrite Hm. unfold jar_cookies. rewrite map_app.
    assert (Hnone : find_cookie name (map (fun e => (j_name e, j_value e)) (filter (name_ne (sc_name c)) (filter (sessb name) j))) = None)
      by (apply (find_none_after_name_ne name)).
    rewrite (find_cookie_app_none _ _ _ Hnone). cbn [map find_cookie entry_of j_name j_value c make_cookie sc_name sc_value].
    rewrite str_eqb_refl. reflexivity.
  Qed.

  Theorem ticket_load_after_save j m v created fresh now now' :
    dom_ok name D P j ->
    is_bytes (fst fresh) -> is_bytes (snd fresh) ->
    ts_ok created = true -> in_window created now' (c_expire_ns cfg) = true ->
    let '(j', m') := ticket_step mac seal cfg host now (j, m) (TSave v created fresh) in
    dom_ok name D P j' /\
    snd (manager_load mac str unseal m' cfg (jar_cookies j') now') = Some v.
  Proof.
    intros Hd Hf1 Hf2 Hts Hw. cbn [ticket_step].
    set (tk := match ticket_from_request mac cfg (jar_cookies j) now with Some t => t | None => fresh end).
    assert (Htk : is_bytes (fst tk) /\ is_bytes (snd tk)).
    { subst tk. destruct (ticket_from_request mac cfg (jar_cookies j) now) as [[id sec]|] eqn:E; [exact (ticket_from_request_bytes mac cfg _ now id sec E)|auto]. }
    unfold manager_save. fold tk. destruct tk as [id sec] eqn:Etk. cbn [fst snd] in Htk. destruct Htk as [Hi Hs].
    cbn [snd].
    set (value := signed_value mac (c_name cfg) (encode_ticket id sec) created).
    destruct (jar_after_ticket_cookie j value Hd) as [Hfind Hd'].
    split; [exact Hd'|].
    unfold manager_load, ticket_from_request. fold name. rewrite Hfind.
    unfold value, name. rewrite (validate_signed_value mac mac_bytes (c_name cfg) (encode_ticket id sec) created now' (c_expire_ns cfg)
                             (encode_ticket_bytes id sec Hi Hs) Hts Hw).
    rewrite (decode_encode_ticket id sec Hi Hs). cbn [snd]. unfold kv_set. rewrite str_eqb_refl. apply unseal_seal.
  Qed.

  (* after a clear the jar presents no ticket cookie and nothing loads *)
  Theorem ticket_nothing_after_clear j m now now' :
    dom_ok name D P j ->
    let '(j', m') := ticket_step mac seal cfg host now (j, m) TClear in
    dom_ok name D P j' /\ manager_load mac str unseal m' cfg (jar_cookies j') now' = (None, None).
  Proof.
    intros Hd. cbn [ticket_step]. unfold manager_clear.
    set (delc := make_cookie cfg host (c_name cfg) [] (-3600000000000)).
    assert (Ho : ours name D P delc) by (split; [apply self_session|split; reflexivity]).
    assert (Hj : forall mm : kv,
               dom_ok name D P (jar_apply j [delc]) /\
               manager_load mac str unseal mm cfg (jar_cookies (jar_apply j [delc])) now' = (None, None)).
    { intro mm.
      destruct (apply_family name D P [delc] j Hd (Forall_cons _ Ho (Forall_nil _))) as (Hf & _ & Hd').
      split; [exact Hd'|].
      unfold manager_load, ticket_from_request. fold name.
      rewrite (find_family name name _ (self_session name)), Hf. cbn [fold_left]. unfold sstep.
      assert (Hm : sc_maxage delc <? 0 = true) by reflexivity. rewrite Hm.
      assert (Hnone : find_cookie name (jar_cookies (filter (name_ne (sc_name delc)) (filter (sessb name) j))) = None)
        by (apply (find_none_after_name_ne name)).
      rewrite Hnone. reflexivity. }
    destruct (find_cookie (c_name cfg) (jar_cookies j)) as [v0|].
    - destruct (ticket_from_request mac cfg (jar_cookies j) now) as [[id sec]|]; apply Hj.
    - apply Hj.
  Qed.
  (* ---- whole histories ---- *)
  Lemma ticket_step_dom_ok now st o :
    dom_ok name D P (fst st) -> dom_ok name D P (fst (ticket_step mac seal cfg host now st o)).
  Proof.
    destruct st as [j m]. cbn [fst]. intro Hd. destruct o as [v created fresh|]; cbn [ticket_step].
    - destruct (match ticket_from_request mac cfg (jar_cookies j) now with Some t => t | None => fresh end) as [id sec] eqn:Etk.
      unfold manager_save. rewrite Etk. cbn [snd fst].
      exact (proj2 (jar_after_ticket_cookie j _ Hd)).
    - unfold manager_clear.
      set (delc := make_cookie cfg host (c_name cfg) [] (-3600000000000)).
      assert (Ho : ours name D P delc) by (split; [apply self_session|split; reflexivity]).
      destruct (apply_family name D P [delc] j Hd (Forall_cons _ Ho (Forall_nil _))) as (_ & _ & Hd').
      destruct (find_cookie (c_name cfg) (jar_cookies j)) as [v0|]; [|exact Hd'].
      destruct (ticket_from_request mac cfg (jar_cookies j) now) as [[id sec]|]; exact Hd'.
  Qed.

  (* a history: operations with the time each of them runs at *)
  Definition ticket_run (st : jar * kv) (ops : list (Z * top)) : jar * kv :=
    fold_left (fun st p => ticket_step mac seal cfg host (fst p) st (snd p)) ops st.

  Lemma ticket_run_dom_ok ops : forall st, dom_ok name D P (fst st) -> dom_ok name D P (fst (ticket_run st ops)).
  Proof.
    induction ops as [|p ops IH]; intros st Hd; [exact Hd|]. cbn [ticket_run fold_left].
    apply IH. apply ticket_step_dom_ok. exact Hd.
  Qed.

  (* After ANY history of saves and clears (any values, any times, any store contents to begin with), from a
     jar that satisfies the family invariant: a further save makes the next request load exactly the saved
     session, a further clear leaves nothing to load. *)
  Theorem ticket_history j m ops now o now' :
    dom_ok name D P j ->
    let st := ticket_run (j, m) ops in
    let st' := ticket_step mac seal cfg host now st o in
    match o with
    | TSave v created fresh =>
      is_bytes (fst fresh) -> is_bytes (snd fresh) -> ts_ok created = true ->
      in_window created now' (c_expire_ns cfg) = true ->
      snd (manager_load mac str unseal (snd st') cfg (jar_cookies (fst st')) now') = Some v
    | TClear => manager_load mac str unseal (snd st') cfg (jar_cookies (fst st')) now' = (None, None)
    end.
  Proof.
    intros Hd st st'. pose proof (ticket_run_dom_ok ops (j, m) Hd) as Hd1. fold st in Hd1.
    subst st'. destruct st as [j1 m1]. cbn [fst] in Hd1.
    destruct o as [v created fresh|].
    - intros Hf1 Hf2 Hts Hw.
      pose proof (ticket_load_after_save j1 m1 v created fresh now now' Hd1 Hf1 Hf2 Hts Hw) as H.
      destruct (ticket_step mac seal cfg host now (j1, m1) (TSave v created fresh)) as [j' m']. exact (proj2 H).
    - pose proof (ticket_nothing_after_clear j1 m1 now now' Hd1) as H.
      destruct (ticket_step mac seal cfg host now (j1, m1) TClear) as [j' m']. exact (proj2 H).
  Qed.
End TicketHistory.
