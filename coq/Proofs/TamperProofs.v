(* C02: what acceptance of a cookie guarantees (MAC coverage), message ambiguity of the
   unseparated MAC input, split-part handling, ticket handling. *)
From V.Lib Require Import Bytes Base64 NetAddr.
From V.Gen Require Import Consts.
From V.Model Require Import Signed Cookies CookieStore Ticket.
From V.Proofs Require Import SignedProofs.
From Coq Require Import Permutation.
Open Scope Z_scope.

(* ---- the MAC input ---- *)
Lemma app_eq_len_l {A} (a b c d : list A) : a ++ b = c ++ d -> length b = length d -> a = c /\ b = d.
Proof.
  revert c. induction a as [|x a IH]; intros c H Hl.
  - destruct c as [|y c]; [auto|]. simpl in H. subst b. simpl in Hl. rewrite app_length in Hl. lia.
  - destruct c as [|y c].
    + simpl in H. subst d. simpl in Hl. rewrite app_length in Hl. lia.
    + simpl in H. inversion H; subst y. destruct (IH c H2 Hl) as [-> ->]. auto.
Qed.

(* same name, same timestamp length (10 digits for every date between 2001 and 2286):
   one MAC input corresponds to exactly one (value, timestamp) pair *)
Lemma mac_input_inj name ev ts ev' ts' :
  mac_input name ev ts = mac_input name ev' ts' -> length ts = length ts' -> ev = ev' /\ ts = ts'.
Proof.
  unfold mac_input. intros H Hl. apply app_inv_head in H. apply app_eq_len_l in H; auto.
Qed.

Lemma app_eq_split {A} (a b c d : list A) : a ++ b = c ++ d ->
  exists e, (a = c ++ e /\ d = e ++ b) \/ (c = a ++ e /\ b = e ++ d).
Proof.
  revert c. induction a as [|x a IH]; intros c H.
  - exists c. right. simpl in *. auto.
  - destruct c as [|y c].
    + exists (x :: a). left. simpl in *. auto.
    + simpl in H. inversion H; subst y. destruct (IH c H2) as [e [[-> ->]|[-> ->]]]; exists e; [left|right]; auto.
Qed.

(* in general the only ambiguity is a run of bytes migrating between the end of the encoded value
   and the front of the timestamp (observation O1) *)
Lemma mac_input_ambiguity name ev ts ev' ts' :
  mac_input name ev ts = mac_input name ev' ts' ->
  exists e, (ev = ev' ++ e /\ ts' = e ++ ts) \/ (ev' = ev ++ e /\ ts = e ++ ts').
Proof. unfold mac_input. intro H. apply app_inv_head in H. apply app_eq_split. exact H. Qed.

Lemma app_inv_tail_neq (a b t : str) : a <> b -> length a = length b -> a ++ t <> b ++ t.
Proof. intros Hn Hl H. apply app_inv_tail in H. contradiction. Qed.

(* moving a value to another cookie name of the same length changes the MAC input *)
Lemma cross_name_changes_message n n' ev ts :
  n <> n' -> mac_input n ev ts <> mac_input n' ev ts.
Proof. unfold mac_input. intros Hn H. apply app_inv_tail in H. contradiction. Qed.

Section Tamper.
  Variable mac : str -> str.

  (* acceptance = a correct MAC over name ++ field1 ++ field2, for EVERY presented string *)
  Lemma accepted_has_valid_mac name c now e v t :
    validate mac name c now e = Some (v, t) ->
    exists ev ts sg,
      split_on bar c = [ev; ts; sg] /\ url_decode sg = Some (mac (mac_input name ev ts)) /\
      atoi ts = Some t /\ url_decode ev = Some v.
  Proof.
    intro H. apply validate_inv in H as (ev & ts & sg & sb & Hs & Hsg & -> & Ha & _ & Hev).
    exists ev, ts, sg. auto.
  Qed.

  (* An accepted alteration of an issued cookie (same name, timestamp of the same length) whose MAC
     input was signed by the proxy carries exactly the issued encoded value and timestamp: it can
     differ from the issued cookie in the spelling of the signature field only. *)
  Lemma accepted_alteration_is_issued name c now e v t ev0 ts0 :
    validate mac name c now e = Some (v, t) ->
    forall ev ts sg, split_on bar c = [ev; ts; sg] ->
    mac_input name ev ts = mac_input name ev0 ts0 -> length ts = length ts0 ->
    ev = ev0 /\ ts = ts0 /\ url_decode ev0 = Some v /\ atoi ts0 = Some t.
  Proof.
    intros H ev ts sg Hs Hm Hl.
    apply accepted_has_valid_mac in H as (ev1 & ts1 & sg1 & Hs1 & _ & Ha & Hv).
    rewrite Hs in Hs1. inversion Hs1; subst ev1 ts1 sg1.
    destruct (mac_input_inj _ _ _ _ _ Hm Hl) as [-> ->]. auto.
  Qed.

  (* ---- split cookies ---- *)
  Lemma find_cookie_perm name (cs cs' : list cookie) :
    NoDup (map fst cs) -> Permutation cs cs' -> find_cookie name cs = find_cookie name cs'.
  Proof.
    intros Hnd Hp. induction Hp as [| [n v] l l' Hp IH | [n1 v1] [n2 v2] l | l l' l'' Hp1 IH1 Hp2 IH2].
    - reflexivity.
    - simpl. destruct (str_eqb n name); [reflexivity|]. apply IH. simpl in Hnd. inversion Hnd; auto.
    - simpl. destruct (str_eqb n2 name) eqn:E2; destruct (str_eqb n1 name) eqn:E1; auto.
      apply str_eqb_eq in E1, E2. subst. simpl in Hnd. inversion Hnd as [|? ? Hni _]. exfalso. apply Hni. left. reflexivity.
    - rewrite IH1 by exact Hnd. apply IH2.
      eapply Permutation_NoDup; [|exact Hnd]. apply Permutation_map. exact Hp1.
  Qed.

  Lemma collect_parts_ext fuel name : forall count (cs cs' : list cookie),
    (forall n, find_cookie n cs = find_cookie n cs') ->
    collect_parts fuel name count cs = collect_parts fuel name count cs'.
  Proof.
    induction fuel as [|f IH]; intros count cs cs' H; [reflexivity|].
    simpl. rewrite <- H. destruct (find_cookie (split_cookie_name name count) cs); [|reflexivity].
    f_equal. apply IH. exact H.
  Qed.

  (* re-ordering the cookies of a request (distinct names) does not change what is loaded *)
  Lemma load_cookie_perm name (cs cs' : list cookie) :
    NoDup (map fst cs) -> Permutation cs cs' -> load_cookie name cs = load_cookie name cs'.
  Proof.
    intros Hnd Hp. unfold load_cookie.
    rewrite (find_cookie_perm name cs cs' Hnd Hp).
    rewrite (Permutation_length Hp).
    rewrite (collect_parts_ext _ name 0%nat cs cs'); [reflexivity|].
    intro n. apply find_cookie_perm; auto.
  Qed.

  (* dropping part k of a split cookie: only the parts before the gap are joined *)
  Lemma collect_parts_gap fuel name cs : forall count,
    find_cookie (split_cookie_name name count) cs = None ->
    collect_parts fuel name count cs = [].
  Proof. intros count H. destruct fuel; simpl; [reflexivity|]. rewrite H. reflexivity. Qed.

  (* ---- tickets ---- *)
  Variable session : Type.
  Variable unseal : str -> str -> option session.

  (* the store is read only under the id of a ticket whose cookie passed validation *)
  Lemma manager_load_reads_only_valid store cfg cs now id :
    fst (manager_load mac session unseal store cfg cs now) = Some id ->
    exists v raw t sec,
      find_cookie (c_name cfg) cs = Some v /\
      validate mac (c_name cfg) v now (c_expire_ns cfg) = Some (raw, t) /\
      decode_ticket raw = Some (id, sec).
  Proof.
    unfold manager_load, ticket_from_request.
    destruct (find_cookie (c_name cfg) cs) as [v|] eqn:Hf; [|simpl; discriminate].
    destruct (validate mac (c_name cfg) v now (c_expire_ns cfg)) as [[raw t]|] eqn:Hv; [|simpl; discriminate].
    destruct (decode_ticket raw) as [[id' sec]|] eqn:Hd; [|simpl; discriminate].
    simpl. intro H. inversion H; subst id'. exists v, raw, t, sec. auto.
  Qed.

  Lemma manager_load_session_implies_read store cfg cs now s :
    snd (manager_load mac session unseal store cfg cs now) = Some s ->
    exists id ct sec, fst (manager_load mac session unseal store cfg cs now) = Some id /\
                      store id = Some ct /\ unseal sec ct = Some s.
  Proof.
    unfold manager_load. destruct (ticket_from_request mac cfg cs now) as [[id sec]|]; [|simpl; discriminate].
    simpl. destruct (store id) as [ct|] eqn:Hs; [|discriminate]. intro H. exists id, ct, sec. auto.
  Qed.

  (* Manager.Save hands out a cookie only when the store write succeeded *)
  Lemma manager_save_cookie_implies_write cfg host cs now fresh created ok id cookies :
    manager_save mac cfg host cs now fresh created ok = (id, Some cookies) -> ok = true.
  Proof.
    unfold manager_save. destruct (match ticket_from_request mac cfg cs now with Some t => t | None => fresh end) as [i sec].
    destruct ok; [reflexivity|discriminate].
  Qed.

  (* Manager.Save writes under the fresh ticket unless the request's ticket cookie validates: a ticket
     that was merely presented (unsigned, signed with another secret, expired) is never adopted *)
  Lemma manager_save_key_fresh_or_valid cfg host cs now fresh created ok :
    fst (manager_save mac cfg host cs now fresh created ok) = fst fresh \/
    exists v raw t sec,
      find_cookie (c_name cfg) cs = Some v /\
      validate mac (c_name cfg) v now (c_expire_ns cfg) = Some (raw, t) /\
      decode_ticket raw = Some (fst (manager_save mac cfg host cs now fresh created ok), sec).
  Proof.
    unfold manager_save, ticket_from_request.
    destruct (find_cookie (c_name cfg) cs) as [v|] eqn:Hf; [|left; destruct fresh; reflexivity].
    destruct (validate mac (c_name cfg) v now (c_expire_ns cfg)) as [[raw t]|] eqn:Hv; [|left; destruct fresh; reflexivity].
    destruct (decode_ticket raw) as [[id sec]|] eqn:Hd; [|left; destruct fresh; reflexivity].
    right. exists v, raw, t, sec. cbn [fst]. auto.
  Qed.

  (* ... and the cookie it hands out names exactly the key it wrote *)
  Lemma manager_save_no_valid_cookie_fresh cfg host cs now fresh created ok :
    ticket_from_request mac cfg cs now = None ->
    fst (manager_save mac cfg host cs now fresh created ok) = fst fresh.
  Proof. unfold manager_save. intros ->. destruct fresh. reflexivity. Qed.

  (* Manager.Clear reports success only if the delete succeeded or there was no cookie at all *)
  Lemma manager_clear_success cfg host cs now del_ok dels key :
    manager_clear mac cfg host cs now del_ok = (dels, key, true) ->
    find_cookie (c_name cfg) cs = None \/ (exists id, key = Some id /\ del_ok = true).
  Proof.
    unfold manager_clear. destruct (find_cookie (c_name cfg) cs) as [v|]; [|left; reflexivity].
    destruct (ticket_from_request mac cfg cs now) as [[id sec]|]; intro H; inversion H; subst.
    right. exists id. auto.
  Qed.
End Tamper.
