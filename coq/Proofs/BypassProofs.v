(* C15: skip-auth routes, preflight, trusted networks. *)
From V.Lib Require Import Bytes NetAddr.
From V.Model Require Import Bypass.
From Coq Require Import ZifyN ZifyNat ZifyBool.
Open Scope N_scope.

Section BypassProofs.
  Variable matches : nat -> str -> bool.
  Variable parse_uri_path : str -> option str.
  Variable parse_ip : str -> option N.

  (* ---- routes ---- *)
  Lemma is_allowed_route_spec routes rq :
    is_allowed_route matches parse_uri_path routes rq = true <->
    exists r, In r routes /\
      (r_method r = [] \/ r_method r = b_method rq) /\
      xorb (matches (r_regex r) (request_path parse_uri_path rq)) (r_negate r) = true.
  Proof.
    unfold is_allowed_route. rewrite existsb_exists. split.
    - intros (r & Hin & H). apply andb_true_iff in H as [Hm Hp]. exists r. split; [exact Hin|]. split; [|exact Hp].
      unfold allowed_method in Hm. destruct (r_method r) as [|m0 mr] eqn:E; [left; reflexivity|right].
      apply str_eqb_eq in Hm. congruence.
    - intros (r & Hin & Hm & Hp). exists r. split; [exact Hin|]. apply andb_true_iff. split; [|exact Hp].
      unfold allowed_method. destruct Hm as [->|Hm]; [reflexivity|].
      destruct (r_method r) as [|m0 mr] eqn:E; [reflexivity|]. apply str_eqb_eq. congruence.
  Qed.

  (* the decision is a function of the method and the request path only: query string, fragment
     and every other part of the request are irrelevant *)
  Lemma is_allowed_route_path_only routes rq rq' :
    b_method rq = b_method rq' ->
    request_path parse_uri_path rq = request_path parse_uri_path rq' ->
    is_allowed_route matches parse_uri_path routes rq = is_allowed_route matches parse_uri_path routes rq'.
  Proof.
    intros Hm Hp. unfold is_allowed_route, allowed_method, allowed_path. rewrite Hm, Hp. reflexivity.
  Qed.

  (* with reverse-proxy off the X-Forwarded-Uri header plays no role *)
  Lemma request_path_not_proxied rq :
    b_proxied rq = false ->
    request_path parse_uri_path rq =
      match parse_uri_path (b_request_uri rq) with Some p => p | None => cut_at_query_or_fragment (b_request_uri rq) end.
  Proof. intro H. unfold request_path, request_uri. rewrite H. reflexivity. Qed.

  (* ---- trusted networks ---- *)
  Definition contains (n : ipnet) (ip : N) : Prop :=
    is_v4 (n_addr n) = is_v4 ip /\ mask_addr ip (n_ones n) = n_addr n.

  Lemma mem_N_in x l : mem_N x l = true <-> In x l.
  Proof.
    induction l as [|y l IH]; simpl; [split; [discriminate|tauto]|].
    rewrite orb_true_iff, N.eqb_eq, IH. split; intros [H|H]; auto.
  Qed.

  Definition maps_has (maps : list netmap) (ip : N) : bool := existsb (fun m => map_has m ip) maps.

  Lemma add_to_maps_has maps ones addr ip :
    maps_has (add_to_maps maps ones addr) ip = maps_has maps ip || (mask_addr ip ones =? addr).
  Proof.
    induction maps as [|[o ips] rest IH]; simpl.
    - unfold maps_has, map_has. simpl. rewrite !orb_false_r. reflexivity.
    - destruct (N.eqb_spec o ones) as [->|Hne]; simpl.
      + unfold maps_has. simpl. unfold map_has. simpl.
        destruct (mask_addr ip ones =? addr); destruct (mem_N (mask_addr ip ones) ips);
          destruct (existsb (fun m : netmap => mem_N (mask_addr ip (fst m)) (snd m)) rest); reflexivity.
      + unfold maps_has in *. simpl. rewrite IH. destruct (map_has (o, ips) ip); destruct (existsb (fun m : netmap => map_has m ip) rest); reflexivity.
  Qed.

  Lemma set_has_add s n ip :
    set_has (add_net s n) ip = set_has s ip || (Bool.eqb (is_v4 (n_addr n)) (is_v4 ip) && (mask_addr ip (n_ones n) =? n_addr n)).
  Proof.
    unfold set_has, add_net. destruct (is_v4 (n_addr n)) eqn:En; destruct (is_v4 ip) eqn:Ei; simpl;
      fold (maps_has (v4maps s) ip); fold (maps_has (v6maps s) ip);
      try (rewrite orb_false_r; reflexivity);
      match goal with |- existsb _ (add_to_maps ?m ?o ?a) = _ => change (maps_has (add_to_maps m o a) ip = maps_has m ip || (mask_addr ip o =? a)); apply add_to_maps_has end.
  Qed.

  Lemma fold_add_has nets : forall s ip,
    set_has (fold_left add_net nets s) ip = true <->
    set_has s ip = true \/ exists n, In n nets /\ contains n ip.
  Proof.
    induction nets as [|n nets IH]; intros s ip; simpl.
    - split; [auto|intros [H|(n & [] & _)]; exact H].
    - rewrite IH, set_has_add, orb_true_iff, andb_true_iff. unfold contains.
      rewrite N.eqb_eq, Bool.eqb_true_iff. split.
      + intros [[H|H]|(m & Hin & Hc)]; [left; exact H|right; exists n; auto|right; exists m; auto].
      + intros [H|(m & [->|Hin] & Hc)]; [left; left; exact H|left; right; exact Hc|right; exists m; auto].
  Qed.

  (* For every list of networks (overlapping, nested, mixed families, any order, duplicates) and
     every 128-bit address: membership in the set built by AddIPNet is exactly membership in one of
     the networks, decided within the address family. *)
  Lemma build_set_spec nets ip :
    set_has (build_set nets) ip = true <-> exists n, In n nets /\ contains n ip.
  Proof.
    unfold build_set. rewrite fold_add_has. split; [intros [H|H]; [unfold set_has, empty_set in H; simpl in H; destruct (is_v4 ip); discriminate|exact H]|auto].
  Qed.

  (* ---- whole decision ---- *)
  Lemma is_allowed_request_spec skip routes s use_header rq :
    is_allowed_request matches parse_uri_path parse_ip skip routes s use_header rq = true <->
    (skip = true /\ b_method rq = options_m) \/
    is_allowed_route matches parse_uri_path routes rq = true \/
    is_trusted_ip parse_ip s use_header rq = true.
  Proof.
    unfold is_allowed_request. rewrite !orb_true_iff, andb_true_iff, str_eqb_eq. tauto.
  Qed.

  (* with no header parser configured (reverse-proxy off) the trusted-IP decision depends on
     RemoteAddr only *)
  Lemma trusted_ip_remote_only s rq rq' :
    b_remote_addr rq = b_remote_addr rq' ->
    is_trusted_ip parse_ip s false rq = is_trusted_ip parse_ip s false rq'.
  Proof. intro H. unfold is_trusted_ip, client_ip. rewrite H. reflexivity. Qed.

  (* with a header parser, only that one header matters *)
  Lemma trusted_ip_header_only s rq rq' :
    b_ip_header rq = b_ip_header rq' ->
    is_trusted_ip parse_ip s true rq = is_trusted_ip parse_ip s true rq'.
  Proof. intro H. unfold is_trusted_ip, client_ip. rewrite H. reflexivity. Qed.
End BypassProofs.

(* route specifications *)
Example parse_route_examples :
  parse_route (s "GET=^/public") = (s "GET", false, s "^/public") /\
  parse_route (s "get!=^/private") = (s "GET", true, s "^/private") /\
  parse_route (s "^/anything$") = ([], false, s "^/anything$") /\
  parse_route (s "!=^/api") = ([], true, s "^/api") /\
  parse_route (s "POST=/a=b") = (s "POST", false, s "/a=b").
Proof. vm_compute. repeat split. Qed.

(* the network predicate is not vacuous: 10.1.2.3 (mapped) lies in 10.0.0.0/8 = /104 *)
Example contains_example :
  let ip := (65535 * 2 ^ 32 + 10 * 2 ^ 24 + 1 * 2 ^ 16 + 2 * 2 ^ 8 + 3)%N in
  let net := {| n_addr := (65535 * 2 ^ 32 + 10 * 2 ^ 24)%N; n_ones := 104 |} in
  set_has (build_set [net]) ip = true /\ canonical net = true.
Proof. vm_compute. split; reflexivity. Qed.
