(* C06: what http.Redirect sends for a validated relative target still stays on the request host. *)
From V.Lib Require Import Bytes.
From V.Gen Require Import Consts.
From V.Model Require Import Authz Redirect GoPath.
From V.Proofs Require Import RedirectProofs.
Open Scope N_scope.

(* ---- strings.Split on "/" ---- *)
Lemma split_on_nonempty sep l : split_on sep l <> [].
Proof. destruct l as [|x l]; simpl; [discriminate|]. destruct (x =? sep); [discriminate|]. destruct (split_on sep l); discriminate. Qed.

(* a split with at least two fields: the text is the first field, the separator, and the text of the rest *)
Lemma split_on_cons2 sep l f g fs :
  split_on sep l = f :: g :: fs ->
  exists l', l = f ++ sep :: l' /\ split_on sep l' = g :: fs /\ memb sep f = false.
Proof.
  revert f g fs. induction l as [|x l IH]; intros f g fs H; simpl in H; [discriminate|].
  destruct (x =? sep) eqn:E.
  - apply N.eqb_eq in E. subst x. inversion H; subst. exists l. repeat split; auto.
  - destruct (split_on sep l) as [|f0 fs0] eqn:Es; [discriminate|].
    inversion H; subst. destruct (IH f0 g fs eq_refl) as [l' [-> [Hs Hm]]].
    exists l'. repeat split; auto. simpl. rewrite E. exact Hm.
Qed.

Lemma split_on_single sep l f : split_on sep l = [f] -> l = f /\ memb sep f = false.
Proof.
  revert f. induction l as [|x l IH]; intros f H; simpl in H.
  - inversion H. auto.
  - destruct (x =? sep) eqn:E.
    + exfalso. injection H as _ Hn. exact (split_on_nonempty sep l Hn).
    + destruct (split_on sep l) as [|f0 fs0] eqn:Es; [exfalso; exact (split_on_nonempty _ _ Es)|].
      inversion H; subst. destruct (IH f0 eq_refl) as [-> Hm]. split; [reflexivity|]. simpl. rewrite E. exact Hm.
Qed.

(* ---- the scanner on suffixes ---- *)
Lemma has_bad_app_r a b : has_bad (a ++ b) = false -> has_bad b = false.
Proof.
  induction a as [|c a IH]; simpl; [auto|]. intro H. apply orb_false_iff in H as [_ H]. auto.
Qed.

Definition normal (s : str) : bool := negb (is_nil s || is_dot s || is_dotdot s).

(* an element that is followed by "/" and preceded by "/" cannot be empty, "." or ".." in a string the
   scanner accepts *)
Lemma bad_free_interior_normal seg rest :
  has_bad (47 :: seg ++ 47 :: rest) = false -> normal seg = true.
Proof.
  intro H. cbn [has_bad] in H. apply orb_false_iff in H as [H _]. change (slashy 47) with true in H. cbn [andb] in H.
  unfold bad_after in H. apply orb_false_iff in H as [H1 H2].
  unfold normal. apply negb_true_iff. apply orb_false_iff. split; [apply orb_false_iff; split|].
  - destruct seg; [|reflexivity]. simpl in H1. discriminate.
  - unfold is_dot. apply str_eqb_neq. intros ->. simpl in H2. discriminate.
  - unfold is_dotdot. apply str_eqb_neq. intros ->. simpl in H2. discriminate.
Qed.

(* every element but the last of an accepted rooted path (followed by anything) is normal *)
Lemma bad_free_init_normal pb q :
  has_bad (47 :: pb ++ q) = false -> Forall (fun s => normal s = true) (removelast (split_on 47 pb)).
Proof.
  remember (split_on 47 pb) as segs eqn:Es. revert pb Es.
  induction segs as [|f fs IH]; intros pb Es H; [constructor|].
  destruct fs as [|g fs']; [constructor|].
  symmetry in Es. destruct (split_on_cons2 _ _ _ _ _ Es) as [pb' [-> [Hs _]]].
  change (removelast (f :: g :: fs')) with (f :: removelast (g :: fs')).
  rewrite <- app_assoc in H. cbn [app] in H. constructor.
  - exact (bad_free_interior_normal _ _ H).
  - apply (IH pb' (eq_sym Hs)).
    change (47 :: f ++ 47 :: pb' ++ q) with ((47 :: f) ++ 47 :: pb' ++ q) in H. exact (has_bad_app_r _ _ H).
Qed.

(* ---- path.Clean over normal elements ---- *)
Lemma clean_step_normal st s : normal s = true -> clean_step st s = s :: st.
Proof.
  unfold normal, clean_step. intro H. apply negb_true_iff in H. apply orb_false_iff in H as [H H3].
  rewrite H, H3. reflexivity.
Qed.

Lemma fold_clean_normal l : forall acc, Forall (fun s => normal s = true) l -> fold_left clean_step l acc = rev l ++ acc.
Proof.
  induction l as [|s l IH]; intros acc H; [reflexivity|].
  inversion H; subst. cbn [fold_left]. rewrite clean_step_normal by assumption. rewrite IH by assumption.
  simpl. rewrite <- app_assoc. reflexivity.
Qed.

Lemma split_last_decomp (l : list str) : l <> [] -> l = removelast l ++ [last l []].
Proof. intro H. apply app_removelast_last. exact H. Qed.

(* the cleaned element list of an accepted path: all elements but the last, then the last one's effect *)
Lemma clean_stack pb q :
  has_bad (47 :: pb ++ q) = false ->
  rev (fold_left clean_step (split_on 47 pb) []) =
    rev (clean_step (rev (removelast (split_on 47 pb))) (last (split_on 47 pb) [])).
Proof.
  intro H. pose proof (bad_free_init_normal _ _ H) as Hn.
  rewrite (split_last_decomp (split_on 47 pb)) at 1 by apply split_on_nonempty.
  rewrite fold_left_app. rewrite (fold_clean_normal (removelast (split_on 47 pb)) [] Hn). rewrite app_nil_r. reflexivity.
Qed.

(* ---- browser reading of "s1 ++ z" when "s1 ++ y" passed the scanner's first test ---- *)
Definition harmless_head (z y : str) : Prop :=
  z = [] \/ (exists z', z = 63 :: z') \/ ((exists z', z = 47 :: z') /\ exists y', y = 47 :: y').

Lemma strip_not_slashy s1 : forall z y,
  starts_slashy (skip_ws (s1 ++ y)) = false -> harmless_head z y ->
  starts_slashy (browser_strip (s1 ++ z)) = false.
Proof.
  induction s1 as [|c s IH]; intros z y Hs Hh.
  - simpl in *. destruct Hh as [-> | [[z' ->] | [[z' ->] [y' ->]]]]; [reflexivity|reflexivity|].
    simpl in Hs. discriminate.
  - simpl app in *. unfold browser_strip. cbn [filter]. fold (browser_strip (s ++ z)).
    destruct (tab_lf_cr c) eqn:Et; cbn [negb].
    + apply (IH z y); [|exact Hh]. cbn [skip_ws] in Hs. rewrite (tab_lf_cr_is_ws _ Et) in Hs. exact Hs.
    + cbn [starts_slashy]. cbn [skip_ws] in Hs. destruct (is_ws c) eqn:Ew.
      * destruct (slashy c) eqn:Esl; [|reflexivity]. rewrite (slashy_not_ws _ Esl) in Ew. discriminate.
      * exact Hs.
Qed.

(* ---- strings.Index(url, "?") ---- *)
Lemma cut_at_question_spec l : forall p q, cut_at_question l = (p, q) ->
  l = p ++ q /\ memb 63 p = false /\ (q = [] \/ exists q', q = 63 :: q').
Proof.
  induction l as [|c r IH]; intros p q H; simpl in H.
  - inversion H. auto.
  - destruct (c =? 63) eqn:E.
    + inversion H; subst. apply N.eqb_eq in E. subst c. repeat split; auto. right. eexists; reflexivity.
    + destruct (cut_at_question r) as [a b] eqn:Ec. inversion H; subst.
      destruct (IH a q eq_refl) as [-> [Hm Hq]]. repeat split; auto. simpl. rewrite E. exact Hm.
Qed.

Lemma suffixb_slash_snoc l : suffixb [47] (l ++ [47]) = true.
Proof. unfold suffixb. rewrite rev_app_distr. simpl. reflexivity. Qed.

Lemma suffixb_slash_last (l : str) : suffixb [47] l = true -> exists l', l = l' ++ [47].
Proof.
  unfold suffixb. change (rev [47]) with [47]. destruct (rev l) as [|c r] eqn:E; cbn [prefixb]; [discriminate|]. intro H.
  apply andb_true_iff in H as [H _]. apply N.eqb_eq in H. subst c.
  exists (rev r). rewrite <- (rev_involutive l), E. reflexivity.
Qed.

(* a text ending in "/" splits into at least two fields, the last one empty *)
Lemma split_on_snoc_sep sep l : exists fs, split_on sep (l ++ [sep]) = fs ++ [[]] /\ fs <> [].
Proof.
  induction l as [|x l [fs [IH Hne]]]; simpl.
  - rewrite N.eqb_refl. exists [[]]. split; [reflexivity|discriminate].
  - destruct (x =? sep).
    + exists ([] :: fs). rewrite IH. split; [reflexivity|discriminate].
    + rewrite IH. destruct fs as [|f fs']; [congruence|]. simpl. exists ((x :: f) :: fs'). split; [reflexivity|discriminate].
Qed.

(* ---- the rewritten target ---- *)
Lemma memb_app c (a b : str) : memb c (a ++ b) = memb c a || memb c b.
Proof. induction a as [|x a IH]; simpl; [reflexivity|]. rewrite IH. apply orb_assoc. Qed.

Definition zform (z : str) : Prop := z = [] \/ (exists z', z = 63 :: z') \/ (exists z', z = 47 :: z').

Lemma zform_tail (xs : list str) (trail q : str) :
  (trail = [] \/ trail = [47]) -> (q = [] \/ exists q', q = 63 :: q') ->
  zform ((match xs with [] => [] | _ => 47 :: join [47] xs end) ++ trail ++ q).
Proof.
  intros Ht Hq. destruct xs as [|x xs].
  - simpl. destruct Ht as [-> | ->]; simpl.
    + destruct Hq as [-> | [q' ->]]; [left; reflexivity|right; left; eexists; reflexivity].
    + right; right. eexists; reflexivity.
  - right; right. simpl. eexists; reflexivity.
Qed.

Lemma zform_harmless z y' : zform z -> harmless_head z (47 :: y').
Proof.
  intros [-> | [[z' ->] | [z' ->]]]; [left; reflexivity | right; left; eexists; reflexivity | right; right].
  split; eexists; reflexivity.
Qed.

Lemma join_cons (x : str) (xs : list str) :
  join [47] (x :: xs) = x ++ (match xs with [] => [] | _ => 47 :: join [47] xs end).
Proof. destruct xs; simpl; [rewrite app_nil_r|]; reflexivity. Qed.

Lemma removelast_cons2 (a b : str) (l : list str) : removelast (a :: b :: l) = a :: removelast (b :: l).
Proof. reflexivity. Qed.

(* the part of the rewritten target after its leading "/" is empty or begins with the first element
   of the path as sent, followed by nothing, the query, or a "/" that followed it in the original too *)
Lemma cleaned_shape pb q :
  has_bad (47 :: pb ++ q) = false ->
  (q = [] \/ exists q', q = 63 :: q') ->
  let c := clean_rooted (47 :: pb) in
  let out := (if suffixb [47] (47 :: pb) && negb (suffixb [47] c) then c ++ [47] else c) ++ q in
  exists s1 z y, out = 47 :: s1 ++ z /\ pb ++ q = s1 ++ y /\ harmless_head z y.
Proof.
  intros Hbad Hq c out.
  set (trail := if suffixb [47] (47 :: pb) && negb (suffixb [47] c) then [47] else ([] : str)).
  assert (Hout : out = c ++ trail ++ q).
  { unfold out, trail. destruct (suffixb [47] (47 :: pb) && negb (suffixb [47] c)); [rewrite <- app_assoc|]; reflexivity. }
  assert (Htr : trail = [] \/ trail = [47]).
  { unfold trail. destruct (suffixb [47] (47 :: pb) && negb (suffixb [47] c)); auto. }
  unfold clean_rooted in c. cbn [tl] in c.
  pose proof (clean_stack pb q Hbad) as Hst.
  set (stack := rev (fold_left clean_step (split_on 47 pb) [])) in *.
  pose proof (bad_free_init_normal _ _ Hbad) as Hn.
  destruct stack as [|x xs] eqn:Estack.
  - (* cleaned to "/" : nothing is appended after it *)
    assert (Hc : c = [47]) by reflexivity.
    assert (trail = []) as ->.
    { unfold trail. rewrite Hc. change (suffixb [47] [47]) with true. rewrite andb_false_r. reflexivity. }
    exists [], q, (pb ++ q). rewrite Hout, Hc. repeat split.
    destruct Hq as [-> | [q' ->]]; [left; reflexivity | right; left; eexists; reflexivity].
  - assert (Hc : c = 47 :: x ++ (match xs with [] => [] | _ => 47 :: join [47] xs end)).
    { unfold c. rewrite join_cons. reflexivity. }
    destruct (split_on 47 pb) as [|f fs] eqn:Es; [destruct (split_on_nonempty 47 pb Es)|].
    destruct fs as [|g fs'].
    + (* a single element *)
      destruct (split_on_single _ _ _ Es) as [-> Hm].
      cbn [removelast last rev] in Hst. unfold clean_step in Hst.
      destruct (is_nil f || is_dot f) eqn:E1; [discriminate|].
      destruct (is_dotdot f) eqn:E2; [discriminate|].
      cbn [rev app] in Hst. inversion Hst; subst x xs.
      assert (trail = []) as ->.
      { unfold trail. destruct (suffixb [47] (47 :: f)) eqn:Esf; [|reflexivity].
        exfalso. apply suffixb_slash_last in Esf as [l' El].
        destruct l' as [|c0 l'']; cbn [app] in El.
        - inversion El; subst. simpl in E1. discriminate.
        - inversion El; subst. rewrite memb_app in Hm. simpl in Hm. rewrite orb_true_r in Hm. discriminate. }
      exists f, q, q. rewrite Hout, Hc. cbn [app]. rewrite app_nil_r. repeat split.
      destruct Hq as [-> | [q' ->]]; [left; reflexivity | right; left; eexists; reflexivity].
    + (* at least two elements: the first one is followed by "/" in the path as sent *)
      destruct (split_on_cons2 _ _ _ _ _ Es) as [pb' [-> [Hs' _]]].
      assert (Hx : x = f).
      { rewrite removelast_cons2 in Hst. set (init' := removelast (g :: fs')) in *.
        set (lst := last (f :: g :: fs') []) in *.
        unfold clean_step in Hst.
        destruct (is_nil lst || is_dot lst).
        - rewrite rev_involutive in Hst. inversion Hst. reflexivity.
        - destruct (is_dotdot lst).
          + cbn [rev] in Hst. destruct (rev init') as [|r0 rs] eqn:Er.
            * cbn [app tl rev] in Hst. discriminate.
            * cbn [app tl] in Hst. (* tl ((r0 :: rs) ++ [f]) = rs ++ [f] *)
              rewrite rev_app_distr in Hst. cbn [rev app] in Hst. inversion Hst. reflexivity.
          + cbn [rev] in Hst. rewrite rev_app_distr in Hst. rewrite rev_involutive in Hst. cbn [rev app] in Hst.
            inversion Hst. reflexivity. }
      subst x.
      exists f, ((match xs with [] => [] | _ => 47 :: join [47] xs end) ++ trail ++ q), (47 :: pb' ++ q).
      rewrite Hout, Hc. repeat split.
      * cbn [app]. rewrite <- app_assoc. reflexivity.
      * rewrite <- app_assoc. reflexivity.
      * apply zform_harmless. apply zform_tail; assumption.
Qed.

(* non-ASCII escaping writes '%' and hexadecimal digits only: none of them is TAB, LF, CR, "/" or "\" *)
Lemma hex_digit_plain n : n < 16 -> tab_lf_cr (hex_digit n) = false /\ slashy (hex_digit n) = false.
Proof.
  intro H. unfold hex_digit. destruct (n <? 10) eqn:E.
  - apply N.ltb_lt in E. assert (Hc : n = 0 \/ n = 1 \/ n = 2 \/ n = 3 \/ n = 4 \/ n = 5 \/ n = 6 \/ n = 7 \/ n = 8 \/ n = 9) by lia.
    repeat (destruct Hc as [-> | Hc]; [split; reflexivity|]). subst; split; reflexivity.
  - apply N.ltb_ge in E. assert (Hc : n = 10 \/ n = 11 \/ n = 12 \/ n = 13 \/ n = 14 \/ n = 15) by lia.
    repeat (destruct Hc as [-> | Hc]; [split; reflexivity|]). subst; split; reflexivity.
Qed.

Lemma escape_same_first l :
  starts_slashy (browser_strip (hex_escape_non_ascii l)) = starts_slashy (browser_strip l).
Proof.
  induction l as [|c r IH]; [reflexivity|]. cbn [hex_escape_non_ascii].
  destruct (128 <=? c) eqn:E.
  - apply N.leb_le in E.
    assert (Ht : tab_lf_cr c = false).
    { unfold tab_lf_cr. repeat (apply orb_false_iff; split); apply N.eqb_neq; lia. }
    assert (Hs : slashy c = false).
    { unfold slashy. apply orb_false_iff; split; apply N.eqb_neq; lia. }
    unfold browser_strip. cbn [filter]. rewrite Ht. change (tab_lf_cr 37) with false. cbn [negb starts_slashy].
    rewrite Hs. reflexivity.
  - unfold browser_strip. cbn [filter]. fold (browser_strip (hex_escape_non_ascii r)). fold (browser_strip r).
    destruct (tab_lf_cr c); cbn [negb]; [exact IH | reflexivity].
Qed.

(* For EVERY string the relative rule accepts and either verdict of net/url.Parse: the Location header
   http.Redirect sets still reads, in a browser, as a path on the current host. *)
Theorem redirect_location_same_host parse_ok r :
  is_valid_relative r = true -> browser_same_host (location_header parse_ok r) = true.
Proof.
  intro Hv. unfold location_header, redirect_location. destruct parse_ok.
  2:{ pose proof (valid_relative_same_host r Hv) as H. unfold browser_same_host in *.
      destruct r as [|c0 rest]; [reflexivity|].
      unfold is_valid_relative in Hv. apply andb_true_iff in Hv as [Hv _]. apply andb_true_iff in Hv as [Hp _].
      cbn [prefixb] in Hp. apply andb_true_iff in Hp as [Hc _]. apply N.eqb_eq in Hc. subst c0.
      cbn [hex_escape_non_ascii]. change (128 <=? 47) with false. cbv iota.
      unfold browser_strip in *. cbn [filter] in *. change (tab_lf_cr 47) with false in *. cbn [negb] in *.
      fold (browser_strip (hex_escape_non_ascii rest)). fold (browser_strip rest) in H.
      rewrite N.eqb_refl in *. cbn [andb] in *. rewrite escape_same_first. exact H. }
  unfold is_valid_relative in Hv. apply andb_true_iff in Hv as [Hv Hbad]. apply andb_true_iff in Hv as [Hp _].
  destruct r as [|c0 body]; [discriminate|]. cbn [prefixb] in Hp. apply andb_true_iff in Hp as [Hc _].
  apply N.eqb_eq in Hc. subst c0. apply negb_true_iff in Hbad.
  cbn [cut_at_question]. change (47 =? 63) with false. cbv iota.
  destruct (cut_at_question body) as [pb q] eqn:Ec.
  destruct (cut_at_question_spec _ _ _ Ec) as [-> [_ Hq]].
  destruct (cleaned_shape pb q Hbad Hq) as [s1 [z [y [Hout [Hy Hh]]]]].
  cbv zeta in Hout. rewrite Hout.
  cbn [hex_escape_non_ascii]. change (128 <=? 47) with false. cbv iota.
  unfold browser_same_host, browser_strip. cbn [filter]. change (tab_lf_cr 47) with false. cbn [negb].
  fold (browser_strip (hex_escape_non_ascii (s1 ++ z))). rewrite N.eqb_refl. cbn [andb].
  rewrite escape_same_first. apply negb_true_iff.
  apply (strip_not_slashy s1 z y); [|exact Hh].
  cbn [has_bad] in Hbad. apply orb_false_iff in Hbad as [Hb _]. change (slashy 47) with true in Hb. cbn [andb] in Hb.
  unfold bad_after in Hb. apply orb_false_iff in Hb as [Hb _]. rewrite <- Hy. exact Hb.
Qed.
