(* C07: what an upstream (or the auth-only response) sees under a configured header name. *)
From V.Lib Require Import Bytes Base64.
From V.Model Require Import Headers.
Open Scope N_scope.

(* ---- the header map ---- *)
Lemma hget_hdel_same k h : hget k (hdel k h) = [].
Proof.
  induction h as [|[k' vs] r IH]; simpl; [reflexivity|].
  destruct (str_eqb k' k) eqn:E; simpl; [exact IH|]. rewrite E. exact IH.
Qed.

Lemma hget_hdel_other k k' h : k <> k' -> hget k (hdel k' h) = hget k h.
Proof.
  intro Hn. induction h as [|[k0 vs] r IH]; simpl; [reflexivity|].
  destruct (str_eqb k0 k') eqn:E; simpl.
  - apply str_eqb_eq in E. subst k0. destruct (str_eqb k' k) eqn:E2; [apply str_eqb_eq in E2; congruence|exact IH].
  - destruct (str_eqb k0 k); [reflexivity|exact IH].
Qed.

Lemma hget_hadd_same k v h : hget k (hadd k v h) = hget k h ++ [v].
Proof.
  induction h as [|[k' vs] r IH]; simpl.
  - rewrite str_eqb_refl. reflexivity.
  - destruct (str_eqb k' k) eqn:E; simpl; rewrite E; [reflexivity|exact IH].
Qed.

Lemma hget_hadd_other k k' v h : k <> k' -> hget k (hadd k' v h) = hget k h.
Proof.
  intro Hn. induction h as [|[k0 vs] r IH]; simpl.
  - destruct (str_eqb k' k) eqn:E; [apply str_eqb_eq in E; congruence|reflexivity].
  - destruct (str_eqb k0 k') eqn:E; simpl.
    + apply str_eqb_eq in E. subst k0. destruct (str_eqb k' k) eqn:E2; [apply str_eqb_eq in E2; congruence|reflexivity].
    + destruct (str_eqb k0 k); [reflexivity|exact IH].
Qed.

Lemma hget_hflatten k h : hget k (hflatten h) = flat_values k (hget k h).
Proof.
  induction h as [|[k' vs] r IH]; simpl; [reflexivity|].
  destruct (str_eqb k' k) eqn:E; [apply str_eqb_eq in E; subst; reflexivity|exact IH].
Qed.

(* ---- derived values ---- *)
(* everything the configuration derives for canonical name k, in configuration order *)
Definition derived (so : option csession) (cfgs : list hentry) (k : str) : list str :=
  flat_map (fun e => if str_eqb (canon (h_name e)) k then flat_map (values_of so) (h_values e) else []) cfgs.

Definition stripped (cfgs : list hentry) (k : str) : bool :=
  existsb (fun e => negb (h_preserve e) && str_eqb (canon (h_name e)) k) cfgs.

Lemma hget_fold_add_same k xs : forall h,
  hget k (fold_left (fun h x => hadd k x h) xs h) = hget k h ++ xs.
Proof.
  induction xs as [|x xs IH]; intro h; simpl; [rewrite app_nil_r; reflexivity|].
  rewrite IH, hget_hadd_same, <- app_assoc. reflexivity.
Qed.

Lemma hget_fold_add_other k k' xs : k <> k' -> forall h,
  hget k (fold_left (fun h x => hadd k' x h) xs h) = hget k h.
Proof.
  intro Hn. induction xs as [|x xs IH]; intro h; simpl; [reflexivity|].
  rewrite IH, hget_hadd_other by exact Hn. reflexivity.
Qed.

Lemma hget_inject so cfgs k : forall h,
  hget k (inject so cfgs h) = hget k h ++ derived so cfgs k.
Proof.
  induction cfgs as [|e cfgs IH]; intro h; simpl; [rewrite app_nil_r; reflexivity|].
  unfold inject in *. simpl. rewrite IH. unfold inject_entry.
  destruct (str_eqb (canon (h_name e)) k) eqn:E.
  - apply str_eqb_eq in E. rewrite E. rewrite hget_fold_add_same, <- app_assoc. reflexivity.
  - rewrite hget_fold_add_other; [reflexivity|]. intro H. subst k. rewrite str_eqb_refl in E. discriminate.
Qed.

Lemma hget_strip cfgs k : forall h,
  hget k (strip cfgs h) = if stripped cfgs k then [] else hget k h.
Proof.
  induction cfgs as [|e cfgs IH]; intro h; simpl; [reflexivity|].
  unfold strip in *. simpl. rewrite IH. unfold stripped. simpl.
  fold (stripped cfgs k).
  destruct (h_preserve e); simpl; [reflexivity|].
  destruct (str_eqb (canon (h_name e)) k) eqn:E; simpl.
  - apply str_eqb_eq in E. subst k. rewrite hget_hdel_same. destruct (stripped cfgs (canon (h_name e))); reflexivity.
  - rewrite hget_hdel_other; [reflexivity|]. intro H. subst k. rewrite str_eqb_refl in E. discriminate.
Qed.

(* What the upstream receives under canonical name k, for EVERY client header map, optional
   session and configuration: the client's values only if no entry strips the name, followed by
   the values derived from the session and configured secrets, comma-joined when several. *)
Lemma request_headers_spec so cfgs h k :
  hget k (request_headers so cfgs h) =
  flat_values k ((if stripped cfgs k then [] else hget k h) ++ derived so cfgs k).
Proof. unfold request_headers. rewrite hget_hflatten, hget_inject, hget_strip. reflexivity. Qed.

(* non-interference: under a stripped name nothing the client sent (any spelling, multiplicity)
   reaches the upstream *)
Lemma request_headers_independent so cfgs h h' k :
  stripped cfgs k = true ->
  hget k (request_headers so cfgs h) = hget k (request_headers so cfgs h').
Proof. intro H. rewrite !request_headers_spec, H. reflexivity. Qed.

(* no session (bypassed request) and only claim sources: the header is absent *)
Lemma get_claim_none claim : get_claim None claim = [].
Proof. reflexivity. Qed.

Lemma derived_none_claims cfgs k :
  (forall e v, In e cfgs -> In v (h_values e) -> exists c p b, v = ClaimV c p b) ->
  derived None cfgs k = [].
Proof.
  intro H. unfold derived. induction cfgs as [|e cfgs IH]; simpl; [reflexivity|].
  rewrite IH by (intros e' v Hin; apply H; right; exact Hin).
  destruct (str_eqb (canon (h_name e)) k); [|reflexivity]. rewrite app_nil_r.
  assert (Hv : forall v, In v (h_values e) -> exists c p b, v = ClaimV c p b) by (intros v Hv; apply (H e v); [left; reflexivity|exact Hv]).
  induction (h_values e) as [|v vs IHv]; simpl; [reflexivity|].
  destruct (Hv v (or_introl eq_refl)) as (c & p & b & ->). simpl. destruct b; simpl; apply IHv; intros v' Hv'; apply Hv; right; exact Hv'.
Qed.

Lemma response_headers_spec so cfgs h k :
  hget k (response_headers so cfgs h) = flat_values k (hget k h ++ derived so cfgs k).
Proof. unfold response_headers. rewrite hget_hflatten, hget_inject. reflexivity. Qed.

(* an empty claim never produces a value, with or without prefix / basic-auth encoding *)
Lemma values_of_empty_claim so claim prefix basic :
  Forall (fun c => c = []) (get_claim so claim) -> values_of so (ClaimV claim prefix basic) = [].
Proof.
  intro H. unfold values_of.
  assert (E : filter nonempty (get_claim so claim) = []).
  { induction (get_claim so claim) as [|c cs IH]; [reflexivity|]. inversion H; subst. simpl. apply IH. assumption. }
  rewrite E. destruct basic; reflexivity.
Qed.

Example canon_examples :
  canon (s "x-forwarded-user") = s "X-Forwarded-User" /\ canon (s "AUTHORIZATION") = s "Authorization" /\
  canon (s "x-auth-request-EMAIL") = s "X-Auth-Request-Email" /\ canon (s "bad header") = s "bad header".
Proof. vm_compute. repeat split. Qed.
