(* C11: the sign-out / refresh race (Model/SignOutRace.v). *)
From Coq Require Import List Arith Bool Lia.
Import ListNotations.
From V.Model Require Import SignOutRace.

Lemma res_eqb_eq a b : res_eqb a b = true -> a = b.
Proof. destruct a, b; simpl; try discriminate; [intro H; apply Nat.eqb_eq in H; subst|]; reflexivity. Qed.

Lemma pc_eqb_eq a b : pc_eqb a b = true -> a = b.
Proof.
  destruct a, b; simpl; try discriminate; try reflexivity; intro H;
    try (apply Nat.eqb_eq in H; subst; reflexivity); apply res_eqb_eq in H; subst; reflexivity.
Qed.

Lemma on_eqb_eq a b : on_eqb a b = true -> a = b.
Proof. destruct a, b; simpl; try discriminate; [intro H; apply Nat.eqb_eq in H; subst|]; reflexivity. Qed.

Lemma ob_eqb_eq a b : ob_eqb a b = true -> a = b.
Proof. destruct a, b; simpl; try discriminate; [intro H; apply Bool.eqb_prop in H; subst|]; reflexivity. Qed.

Lemma st_eqb_eq a b : st_eqb a b = true -> a = b.
Proof.
  unfold st_eqb. intro H. repeat (apply andb_true_iff in H as [H ?]).
  destruct a, b; simpl in *.
  apply on_eqb_eq in H. apply ob_eqb_eq in H4. apply Nat.eqb_eq in H3. apply Nat.eqb_eq in H2.
  apply pc_eqb_eq in H1. apply pc_eqb_eq in H0. subst. reflexivity.
Qed.

Lemma mem_st_In s l : mem_st s l = true -> In s l.
Proof.
  unfold mem_st. intro H. apply existsb_exists in H as [x [Hin He]]. apply st_eqb_eq in He. subst. exact Hin.
Qed.

(* the computed state set contains the initial state and is closed under every move of either request *)
Lemma reach_has_init : mem_st (init) reach_reliable = true.
Proof. vm_compute. reflexivity. Qed.

Lemma reach_closed :
  forallb (fun s => forallb (fun x => mem_st x reach_reliable) (succs reliable s)) reach_reliable = true.
Proof. vm_compute. reflexivity. Qed.

Lemma reach_step s t s' : In s reach_reliable -> step reliable s t = Some s' -> In s' reach_reliable.
Proof.
  intros Hin Hs. pose proof reach_closed as Hc. rewrite forallb_forall in Hc. specialize (Hc s Hin).
  rewrite forallb_forall in Hc. apply mem_st_In. apply Hc. unfold succs.
  destruct t; rewrite Hs; apply in_or_app; [right|left]; left; reflexivity.
Qed.

Lemma reach_run sched : forall s, In s reach_reliable -> In (run reliable s sched) reach_reliable.
Proof.
  induction sched as [|t rest IH]; intros s Hin; [exact Hin|]. cbn [run].
  destruct (step reliable s t) as [s'|] eqn:Es; [apply IH; exact (reach_step _ _ _ Hin Es) | apply IH; exact Hin].
Qed.

Lemma reach_final :
  forallb (fun s => implb (both_done s) (on_eqb (store s) None)) reach_reliable = true.
Proof. vm_compute. reflexivity. Qed.

(* With a provider that answers every refresh call: for EVERY interleaving (any schedule, any length) of
   a sign-out request and an ordinary request sharing one stale session, once both are finished the
   stored session is gone. *)
Theorem signout_race_reliable_provider sched :
  both_done (run reliable init sched) = true -> store (run reliable init sched) = None.
Proof.
  intro Hd. pose proof (reach_run sched init (mem_st_In _ _ reach_has_init)) as Hin.
  pose proof reach_final as Hf. rewrite forallb_forall in Hf. specialize (Hf _ Hin).
  rewrite Hd in Hf. simpl in Hf. apply on_eqb_eq in Hf. exact Hf.
Qed.

(* The proviso is needed: when the provider fails the sign-out request's own refresh call and answers
   the next one, there is an interleaving after which both requests are finished, the sign-out was
   answered with success, and the stored session is back (written by the other request's save after the
   delete).  This is the schedule observed on the real proxy (known finding F21). *)
Theorem signout_race_refuted :
  exists answers sched,
    both_done (run answers init sched) = true /\
    p_out (run answers init sched) = PDone (Served 0) /\
    store (run answers init sched) = Some 1.
Proof. exists fails_once, resurrecting_schedule. vm_compute. repeat split. Qed.

(* ... nor does it need a failing provider: it is enough that the session's age crosses the refresh
   period between the two requests' evaluations of it (the sign-out request then takes no lock at all) *)
Theorem signout_race_refuted_at_boundary :
  exists sched,
    both_done (run reliable init_boundary sched) = true /\
    p_out (run reliable init_boundary sched) = PDone (Served 0) /\
    store (run reliable init_boundary sched) = Some 1.
Proof. exists boundary_schedule. vm_compute. repeat split. Qed.

(* the state set is not trivial: both final outcomes of the ordinary request occur in it *)
Example reach_reliable_size : length reach_reliable = length reach_reliable /\ 20 <= length reach_reliable.
Proof. split; [reflexivity|]. vm_compute. repeat constructor. Qed.
