From Coq Require Import List Bool.
Import ListNotations.
From V.Model Require Import Watch.

(* the invariant of the code's order: an unwatched file has its Remove event queued or being served (before the
   re-arm), and stale contents have an event queued or a reload still to come *)
Definition inv (s : wst) : bool :=
  match pc s with
  | Idle => (watched s || pend_r s) && (fresh s || pend_w s || pend_r s)
  | First => true
  | Second => watched s || pend_r s
  end.

Lemma inv_init : inv init = true.
Proof. reflexivity. Qed.

Lemma inv_step s e : inv s = true -> inv (step RearmThenReload s e) = true.
Proof.
  destruct s as [w pw pr f p]; destruct e; destruct p; destruct w; destruct pw; destruct pr; destruct f; cbn; intro H;
    try reflexivity; try discriminate.
Qed.

Lemma inv_run evs s : inv s = true -> inv (fold_left (step RearmThenReload) evs s) = true.
Proof. revert s. induction evs as [|e evs IH]; cbn; intros s H; [exact H|]. apply IH. apply inv_step. exact H. Qed.

(* whatever the file does and however the loop's steps fall between: when nothing is queued and the loop is idle, the
   loaded contents are the file's and the file is watched *)
Lemma rearm_then_reload_safe evs :
  quiescent (run RearmThenReload evs) = true -> fresh (run RearmThenReload evs) = true /\ watched (run RearmThenReload evs) = true.
Proof.
  unfold run. pose proof (inv_run evs init inv_init) as H. intro Q.
  destruct (fold_left (step RearmThenReload) evs init) as [w pw pr f p]. destruct p; cbn in *; try discriminate.
  destruct pw; destruct pr; cbn in *; try discriminate. destruct w; destruct f; cbn in *; try discriminate. split; reflexivity.
Qed.

(* reloading BEFORE the watch is re-armed: a write that lands between the two is never seen *)
Lemma reload_then_rearm_refuted :
  exists evs, quiescent (run ReloadThenRearm evs) = true /\ fresh (run ReloadThenRearm evs) = false.
Proof. exists [Replace; Step; Step; Write; Step]. split; reflexivity. Qed.

(* not re-arming at all: the second replacement is never seen *)
Lemma reload_only_refuted :
  exists evs, quiescent (run ReloadOnly evs) = true /\ fresh (run ReloadOnly evs) = false.
Proof. exists [Replace; Step; Step; Step; Replace]. split; reflexivity. Qed.
