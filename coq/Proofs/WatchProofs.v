From Coq Require Import List Bool.
Import ListNotations.
From V.Model Require Import Watch.

(* the invariant of the code's order: an unwatched file has its Remove event queued or being served (before the
   re-arm), and stale contents have an event queued or a reload still to come *)
Definition inv (s : wst) : bool :=
  match pc s with
  | Idle => (watched s || pend_r s) && (fresh s || pend_w s || pend_r s)
  | First => true
  | Second => watched s || pend_r s
  end.

Lemma inv_init : inv init = true.
Proof. reflexivity. Qed.

Lemma inv_step s e : inv s = true -> inv (step RearmThenReload s e) = true.
Proof.
  destruct s as [w pw pr f p]; destruct e; destruct p; destruct w; destruct pw; destruct pr; destruct f; cbn; intro H;
    try reflexivity; try discriminate.
Qed.

Lemma inv_run evs s : inv s = true -> inv (fold_left (step RearmThenReload) evs s) = true.
Proof. revert s. induction evs as [|e evs IH]; cbn; intros s H; [exact H|]. apply IH. apply inv_step. exact H. Qed.

(* whatever the file does and however the loop's steps fall between: when nothing is queued and the loop is idle, the
   loaded contents are the file's and the file is watched *)
Lemma rearm_then_reload_safe evs :
  quiescent (run RearmThenReload evs) = true -> fresh (run RearmThenReload evs) = true /\ watched (run RearmThenReload evs) = true.
Proof.
  unfold run. pose proof (inv_run evs init inv_init) as H. intro Q.
  destruct (fold_left (step RearmThenReload) evs init) as [w pw pr f p]. destruct p; cbn in *; try discriminate.
  destruct pw; destruct pr; cbn in *; try discriminate. destruct w; destruct f; cbn in *; try discriminate. split; reflexivity.
Qed.

(* reloading BEFORE the watch is re-armed: a write that lands between the two is never seen *)
Lemma reload_then_rearm_refuted :
  exists evs, quiescent (run ReloadThenRearm evs) = true /\ fresh (run ReloadThenRearm evs) = false.
Proof. exists [Replace; Step; Step; Write; Step]. split; reflexivity. Qed.

(* not re-arming at all: the second replacement is never seen *)
Lemma reload_only_refuted :
  exists evs, quiescent (run ReloadOnly evs) = true /\ fresh (run ReloadOnly evs) = false.
Proof. exists [Replace; Step; Step; Step; Replace]. split; reflexivity. Qed.

(* ---- reported errors ---- *)
Lemma run_e_ignoring o evs : forall s,
  halted s = false ->
  fold_left (step_e false o) evs s = {| base := fold_left (step o) (erase evs) (base s); halted := false |}.
Proof.
  induction evs as [|e evs IH]; intros [b h] Hh; cbn in Hh; subst h; cbn [fold_left erase]; [reflexivity|].
  destruct e as [e|].
  - cbn [erase fold_left]. rewrite IH; [|destruct e; reflexivity]. destruct e; reflexivity.
  - cbn [step_e]. apply IH. reflexivity.
Qed.

(* a loop that logs reported errors and goes on behaves as if they had not happened: the safety of the code's order
   carries over to histories with any number of errors in them *)
Lemma errors_ignored_safe evs :
  quiescent (base (run_e false RearmThenReload evs)) = true ->
  fresh (base (run_e false RearmThenReload evs)) = true /\ watched (base (run_e false RearmThenReload evs)) = true /\
  halted (run_e false RearmThenReload evs) = false.
Proof.
  unfold run_e. rewrite run_e_ignoring by reflexivity. cbn [base halted]. intro Q.
  destruct (rearm_then_reload_safe (erase evs) Q) as [A B]. auto.
Qed.

(* a loop that ends at the first reported error never serves the events queued afterwards *)
Lemma stop_on_error_refuted o :
  exists evs, pend_w (base (run_e true o evs)) = true /\ fresh (base (run_e true o evs)) = false /\
              forall k, run_e true o (evs ++ repeat (Ev Step) k) = run_e true o evs.
Proof.
  exists [Err; Ev Write]. split; [reflexivity|]. split; [reflexivity|].
  intro k. unfold run_e. rewrite fold_left_app. cbn [fold_left step_e base halted].
  induction k as [|k IH]; cbn [repeat fold_left]; [reflexivity|]. cbn [step_e halted]. exact IH.
Qed.
