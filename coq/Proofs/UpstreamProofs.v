(* C17: the upstream chosen is the best match, whatever order the unstable sort produced. *)
From V.Lib Require Import Bytes.
From V.Model Require Import Upstream.
From Coq Require Import Sorted Permutation.
Open Scope nat_scope.

Lemma less_false_key a b : less b a = false -> key_le (key b) (key a).
Proof.
  unfold less, key, key_le, key_lt. destruct (u_rewrite b), (u_rewrite a); simpl; intro H.
  - apply Nat.ltb_ge in H. destruct (Nat.eq_dec (length (u_path b)) (length (u_path a))) as [E|E]; [right; rewrite E; reflexivity|left; right; split; [reflexivity|lia]].
  - discriminate.
  - left. left. lia.
  - apply Nat.ltb_ge in H. destruct (Nat.eq_dec (length (u_path b)) (length (u_path a))) as [E|E]; [right; rewrite E; reflexivity|left; right; split; [reflexivity|lia]].
Qed.

Section RoutingProofs.
  Variable re_match : nat -> str -> bool.

  Lemma first_match_best l p u :
    sorted l -> first_match re_match l p = Some u ->
    In u l /\ matches re_match p u = true /\
    forall v, In v l -> matches re_match p v = true -> key_le (key v) (key u).
  Proof.
    unfold first_match. induction l as [|x l IH]; simpl; intros Hs Hf; [discriminate|].
    apply StronglySorted_inv in Hs as [Hs Hall].
    destruct (matches re_match p x) eqn:Ex.
    - inversion Hf; subst x. split; [left; reflexivity|]. split; [exact Ex|].
      intros v [->|Hin] Hm; [right; reflexivity|].
      rewrite Forall_forall in Hall. apply less_false_key. apply Hall. exact Hin.
    - destruct (IH Hs Hf) as (Hin & Hm & Hbest). split; [right; exact Hin|]. split; [exact Hm|].
      intros v [->|Hv] Hmv; [congruence|]. apply Hbest; assumption.
  Qed.

  (* For EVERY ordering of the configured upstreams that the sort may produce (any permutation
     satisfying the comparator), the route chosen for a path is a matching upstream of greatest
     key: a matching rewrite rule of greatest pattern length if any rule matches, otherwise the
     matching plain upstream with the longest path. *)
  Theorem route_best cfg l p u :
    Permutation cfg l -> sorted l -> first_match re_match l p = Some u ->
    In u cfg /\ matches re_match p u = true /\
    forall v, In v cfg -> matches re_match p v = true -> key_le (key v) (key u).
  Proof.
    intros Hp Hs Hf. destruct (first_match_best l p u Hs Hf) as (Hin & Hm & Hb).
    split; [eapply Permutation_in; [apply Permutation_sym; exact Hp|exact Hin]|]. split; [exact Hm|].
    intros v Hv Hmv. apply Hb; [eapply Permutation_in; eassumption|exact Hmv].
  Qed.

  Lemma no_match_none l p :
    first_match re_match l p = None -> forall v, In v l -> matches re_match p v = false.
  Proof. unfold first_match. intros H v Hin. eapply find_none; eassumption. Qed.

  (* two plain upstreams that both match a path and have equally long paths have the same path:
     with unique configured paths the best plain match is unique *)
  Lemma prefix_same_len (a b p : str) : prefixb a p = true -> prefixb b p = true -> length a = length b -> a = b.
  Proof.
    revert b p. induction a as [|x a IH]; intros b p Ha Hb Hl; destruct b as [|y b]; simpl in Hl; try lia; [reflexivity|].
    destruct p as [|z p]; simpl in Ha, Hb; [discriminate|].
    apply andb_true_iff in Ha as [Hx Ha]. apply andb_true_iff in Hb as [Hy Hb].
    apply N.eqb_eq in Hx, Hy. subst. f_equal. eapply IH; eauto.
  Qed.

  Lemma plain_best_unique p u v :
    u_rewrite u = false -> u_rewrite v = false ->
    matches re_match p u = true -> matches re_match p v = true ->
    length (u_path u) = length (u_path v) ->
    suffixb [slash] (u_path u) = suffixb [slash] (u_path v) -> u_path u = u_path v.
  Proof.
    unfold matches. intros Hu Hv Hmu Hmv Hl Hs. rewrite Hu in Hmu. rewrite Hv in Hmv. rewrite <- Hs in Hmv.
    destruct (suffixb [slash] (u_path u)).
    - eapply prefix_same_len; eauto.
    - apply str_eqb_eq in Hmu, Hmv. congruence.
  Qed.
End RoutingProofs.

(* the comparator really orders by (is-rewrite, pattern length) *)
Lemma less_iff_key a b : less a b = true <-> key_lt (key b) (key a).
Proof.
  unfold less, key, key_lt. destruct (u_rewrite a), (u_rewrite b); simpl; rewrite ?Nat.ltb_lt; split; intro H; try lia; try discriminate;
    try (destruct H as [H|[_ H]]; lia); try (right; split; [reflexivity|exact H]); try reflexivity; try (left; lia).
Qed.
