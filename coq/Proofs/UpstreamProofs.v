(* C17: the upstream chosen is the best match, whatever order the unstable sort produced. *)
From V.Lib Require Import Bytes.
From V.Model Require Import Upstream.
From Coq Require Import Sorted Permutation.
Open Scope nat_scope.

Lemma less_false_key a b : less b a = false -> key_le (key b) (key a).
Proof.
  unfold less, key, key_le, key_lt. destruct (u_rewrite b), (u_rewrite a); simpl; intro H.
  - apply Nat.ltb_ge in H. destruct (Nat.eq_dec (length (u_path b)) (length (u_path a))) as [E|E]; [right; rewrite E; reflexivity|left; right; split; [reflexivity|lia]].
  - discriminate.
  - left. left. lia.
  - apply Nat.ltb_ge in H. destruct (Nat.eq_dec (length (u_path b)) (length (u_path a))) as [E|E]; [right; rewrite E; reflexivity|left; right; split; [reflexivity|lia]].
Qed.

Section RoutingProofs.
  Variable re_match : nat -> str -> bool.

  Lemma first_match_best l p u :
    sorted l -> first_match re_match l p = Some u ->
    In u l /\ matches re_match p u = true /\
    forall v, In v l -> matches re_match p v = true -> key_le (key v) (key u).
  Proof.
    unfold first_match. induction l as [|x l IH]; simpl; intros Hs Hf; [discriminate|].
    apply StronglySorted_inv in Hs as [Hs Hall].
    destruct (matches re_match p x) eqn:Ex.
    - inversion Hf; subst x. split; [left; reflexivity|]. split; [exact Ex|].
      intros v [->|Hin] Hm; [right; reflexivity|].
      rewrite Forall_forall in Hall. apply less_false_key. apply Hall. exact Hin.
    - destruct (IH Hs Hf) as (Hin & Hm & Hbest). split; [right; exact Hin|]. split; [exact Hm|].
      intros v [->|Hv] Hmv; [congruence|]. apply Hbest; assumption.
  Qed.

  (* For EVERY ordering of the configured upstreams that the sort may produce (any permutation
     satisfying the comparator), the route chosen for a path is a matching upstream of greatest
     key: a matching rewrite rule of greatest pattern length if any rule matches, otherwise the
     matching plain upstream with the longest path. *)
  Theorem route_best cfg l p u :
    Permutation cfg l -> sorted l -> first_match re_match l p = Some u ->
    In u cfg /\ matches re_match p u = true /\
    forall v, In v cfg -> matches re_match p v = true -> key_le (key v) (key u).
  Proof.
    intros Hp Hs Hf. destruct (first_match_best l p u Hs Hf) as (Hin & Hm & Hb).
    split; [eapply Permutation_in; [apply Permutation_sym; exact Hp|exact Hin]|]. split; [exact Hm|].
    intros v Hv Hmv. apply Hb; [eapply Permutation_in; eassumption|exact Hmv].
  Qed.

  Lemma no_match_none l p :
    first_match re_match l p = None -> forall v, In v l -> matches re_match p v = false.
  Proof. unfold first_match. intros H v Hin. eapply find_none; eassumption. Qed.

  (* two plain upstreams that both match a path and have equally long paths have the same path:
     with unique configured paths the best plain match is unique *)
  Lemma prefix_same_len (a b p : str) : prefixb a p = true -> prefixb b p = true -> length a = length b -> a = b.
  Proof.
    revert b p. induction a as [|x a IH]; intros b p Ha Hb Hl; destruct b as [|y b]; simpl in Hl; try lia; [reflexivity|].
    destruct p as [|z p]; simpl in Ha, Hb; [discriminate|].
    apply andb_true_iff in Ha as [Hx Ha]. apply andb_true_iff in Hb as [Hy Hb].
    apply N.eqb_eq in Hx, Hy. subst. f_equal. eapply IH; eauto.
  Qed.

  Lemma plain_best_unique p u v :
    u_rewrite u = false -> u_rewrite v = false ->
    matches re_match p u = true -> matches re_match p v = true ->
    length (u_path u) = length (u_path v) ->
    suffixb [slash] (u_path u) = suffixb [slash] (u_path v) -> u_path u = u_path v.
  Proof.
    unfold matches. intros Hu Hv Hmu Hmv Hl Hs. rewrite Hu in Hmu. rewrite Hv in Hmv. rewrite <- Hs in Hmv.
    destruct (suffixb [slash] (u_path u)).
    - eapply prefix_same_len; eauto.
    - apply str_eqb_eq in Hmu, Hmv. congruence.
  Qed.
End RoutingProofs.

(* the comparator really orders by (is-rewrite, pattern length) *)
Lemma less_iff_key a b : less a b = true <-> key_lt (key b) (key a).
Proof.
  unfold less, key, key_lt. destruct (u_rewrite a), (u_rewrite b); simpl; rewrite ?Nat.ltb_lt; split; intro H; try lia; try discriminate;
    try (destruct H as [H|[_ H]]; lia); try (right; split; [reflexivity|exact H]); try reflexivity; try (left; lia).
Qed.

(* ---- rewritePath: the original query is forwarded as received ---- *)
Lemma prefixb_app (a b : str) : prefixb a (a ++ b) = true.
Proof. induction a as [|x a IH]; [destruct b; reflexivity|]. simpl. rewrite N.eqb_refl. exact IH. Qed.

Lemma cut_question_spec l p q : cut_question l = Some (p, q) -> l = p ++ question :: q /\ ~ In question p.
Proof.
  revert p q. induction l as [|c l IH]; intros p q H; [discriminate|].
  simpl in H. destruct (c =? question)%N eqn:E.
  - inversion H; subst. apply N.eqb_eq in E. subst c. split; [reflexivity|intros []].
  - destruct (cut_question l) as [[a b]|] eqn:Hc; [|discriminate]. inversion H; subst.
    destruct (IH a q eq_refl) as [-> Hn]. split; [reflexivity|].
    intros [Ec|Hin]; [subst c; rewrite N.eqb_refl in E; discriminate|contradiction].
Qed.

Lemma cut_question_none l : cut_question l = None -> ~ In question l.
Proof.
  induction l as [|c l IH]; intro H; [intros []|].
  simpl in H. destruct (c =? question)%N eqn:E; [discriminate|].
  destruct (cut_question l) as [[a b]|]; [discriminate|].
  intros [Ec|Hin]; [subst c; rewrite N.eqb_refl in E; discriminate|exact (IH eq_refl Hin)].
Qed.

Lemma forwarded_query_verbatim reencode rewritten orig q :
  forwarded_query reencode rewritten orig = Some q ->
  prefixb orig q = true /\ (rewritten = None -> q = orig).
Proof.
  unfold forwarded_query, split_path_and_query. destruct rewritten as [nu|].
  - destruct (cut_question nu) as [[p aq]|].
    + destruct (reencode aq) as [rq|]; [|discriminate].
      destruct orig as [|o orig]; [intro H; inversion H; split; [reflexivity|discriminate]|].
      destruct rq as [|r rq]; intro H; inversion H; subst; (split; [|discriminate]).
      * rewrite <- (app_nil_r (o :: orig)) at 2. apply prefixb_app.
      * apply (prefixb_app (o :: orig)).
    + intro H. inversion H; subst. split; [|discriminate].
      rewrite <- (app_nil_r q) at 2. apply prefixb_app.
  - intro H. inversion H; subst. split; [|reflexivity]. rewrite <- (app_nil_r q) at 2. apply prefixb_app.
Qed.

(* exactly the rule's additions are appended, re-encoded by the library *)
Lemma forwarded_query_additions reencode nu orig p aq rq :
  cut_question nu = Some (p, aq) -> reencode aq = Some rq ->
  forwarded_query reencode (Some nu) orig =
    Some (match orig, rq with [], _ => rq | _, [] => orig | _, _ => orig ++ ampersand :: rq end).
Proof.
  intros Hc Hr. unfold forwarded_query, split_path_and_query. rewrite Hc, Hr.
  destruct orig; [reflexivity|]. destruct rq; reflexivity.
Qed.

Lemma forwarded_query_no_additions reencode nu orig :
  cut_question nu = None -> forwarded_query reencode (Some nu) orig = Some orig.
Proof. intro Hc. unfold forwarded_query, split_path_and_query. rewrite Hc. reflexivity. Qed.

(* a rewrite is refused only when the rule's own query cannot be parsed *)
Lemma forwarded_query_refused reencode rewritten orig :
  forwarded_query reencode rewritten orig = None <->
  exists nu p aq, rewritten = Some nu /\ cut_question nu = Some (p, aq) /\ reencode aq = None.
Proof.
  unfold forwarded_query, split_path_and_query. split.
  - destruct rewritten as [nu|]; [|discriminate].
    destruct (cut_question nu) as [[p aq]|] eqn:Hc; [|discriminate].
    destruct (reencode aq) as [rq|] eqn:Hr.
    + destruct orig; [discriminate|]. destruct rq; discriminate.
    + intros _. exists nu, p, aq. auto.
  - intros (nu & p & aq & -> & Hc & Hr). rewrite Hc, Hr. reflexivity.
Qed.

(* the rewritten path never carries a '?' *)
Lemma split_path_no_question reencode orig nu p q :
  split_path_and_query reencode orig nu = Some (p, q) -> ~ In question p.
Proof.
  unfold split_path_and_query. destruct (cut_question nu) as [[p' aq]|] eqn:Hc.
  - destruct (cut_question_spec _ _ _ Hc) as [_ Hn].
    destruct (reencode aq) as [rq|]; [|discriminate].
    destruct orig; [intro H; inversion H; subst; exact Hn|].
    destruct rq; intro H; inversion H; subst; exact Hn.
  - intro H. inversion H; subst. apply cut_question_none. exact Hc.
Qed.
