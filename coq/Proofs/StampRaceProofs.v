(* C12: the write-before-validate race of providers without refresh support (Model/StampRace.v). *)
From Coq Require Import List Arith Bool Lia.
Import ListNotations.
From V.Model Require Import StampRace.

Lemma pc_eqb_eq a b : pc_eqb a b = true -> a = b.
Proof. destruct a, b; simpl; try discriminate; reflexivity. Qed.
Lemma stored_eqb_eq a b : stored_eqb a b = true -> a = b.
Proof. destruct a, b; simpl; try discriminate; reflexivity. Qed.
Lemma ob_eqb_eq a b : ob_eqb a b = true -> a = b.
Proof. destruct a, b; simpl; try discriminate; [intro H; apply Bool.eqb_prop in H; subst|]; reflexivity. Qed.

Lemma st_eqb_eq a b : st_eqb a b = true -> a = b.
Proof.
  unfold st_eqb. intro H. repeat (apply andb_true_iff in H as [H ?]). destruct a, b; simpl in *.
  apply stored_eqb_eq in H. apply ob_eqb_eq in H2. apply pc_eqb_eq in H1. apply pc_eqb_eq in H0. subst. reflexivity.
Qed.

Lemma mem_st_In s l : mem_st s l = true -> In s l.
Proof. unfold mem_st. intro H. apply existsb_exists in H as [x [Hin He]]. apply st_eqb_eq in He. subst. exact Hin. Qed.

Lemma reach_has_init : mem_st init reach_repaired = true.
Proof. vm_compute. reflexivity. Qed.

Lemma reach_closed :
  forallb (fun s => forallb (fun x => mem_st x reach_repaired) (succs true s)) reach_repaired = true.
Proof. vm_compute. reflexivity. Qed.

Lemma reach_step s t s' : In s reach_repaired -> step true s t = Some s' -> In s' reach_repaired.
Proof.
  intros Hin Hs. pose proof reach_closed as Hc. rewrite forallb_forall in Hc. specialize (Hc s Hin).
  rewrite forallb_forall in Hc. apply mem_st_In. apply Hc. unfold succs.
  destruct t; rewrite Hs; apply in_or_app; [right|left]; left; reflexivity.
Qed.

Lemma reach_run sched : forall s, In s reach_repaired -> In (run true s sched) reach_repaired.
Proof.
  induction sched as [|t rest IH]; intros s Hin; [exact Hin|]. cbn [run].
  destruct (step true s t) as [s'|] eqn:Es; [apply IH; exact (reach_step _ _ _ Hin Es) | apply IH; exact Hin].
Qed.

Lemma reach_nobody_served : forallb (fun s => negb (someone_served s)) reach_repaired = true.
Proof. vm_compute. reflexivity. Qed.

(* As the code is (write, then validate): there is an interleaving in which the second request is served
   although the provider refuses the session and nothing ever validated it for that request
   (known finding F22; the schedule observed on the real proxy). *)
Theorem stamp_race_refuted :
  exists sched, is_served (p1 (run false init sched)) = true.
Proof. exists stamp_race_schedule. vm_compute. reflexivity. Qed.

(* With the order a repair would use (validate, and stamp and write only on success): for EVERY
   interleaving (any schedule, any length) of the two requests nobody is ever served. *)
Theorem stamp_race_validate_first sched : someone_served (run true init sched) = false.
Proof.
  pose proof (reach_run sched init (mem_st_In _ _ reach_has_init)) as Hin.
  pose proof reach_nobody_served as Hf. rewrite forallb_forall in Hf. specialize (Hf _ Hin).
  apply negb_true_iff in Hf. exact Hf.
Qed.
