(* Lemmas about Model/Csrf.v: the callback's state <-> CSRF-cookie binding. *)
From V.Lib Require Import Bytes Base64.
From V.Gen Require Import Consts.
From V.Model Require Import Signed Csrf.
From V.Proofs Require Import Base64Proofs SignedProofs.
Open Scope Z_scope.

Section CsrfProofs.
  Variable mac : str -> str.
  Variable dec : str -> option csrf.
  Variable hash : str -> str.

  (* ---- soundness ---- *)
  Lemma load_csrf_inv cfg cookies name now c :
    load_csrf mac dec cfg cookies name now = Some c ->
    exists v raw t, In (name, v) cookies /\
      validate mac name v now (k_expire_ns cfg) = Some (raw, t) /\ dec raw = Some c.
  Proof.
    induction cookies as [|[n v] rest IH]; simpl; intro H; [discriminate|].
    destruct (str_eqb n name) eqn:En.
    - apply str_eqb_eq in En. subst n.
      unfold decode_csrf_cookie in H.
      destruct (validate mac name v now (k_expire_ns cfg)) as [[raw t]|] eqn:Hv.
      + destruct (dec raw) as [c'|] eqn:Hd.
        * inversion H; subst c'. exists v, raw, t. auto.
        * destruct (IH H) as (v' & raw' & t' & Hin & Hv' & Hd'). exists v', raw', t'. auto.
      + destruct (IH H) as (v' & raw' & t' & Hin & Hv' & Hd'). exists v', raw', t'. auto.
    - destruct (IH H) as (v' & raw' & t' & Hin & Hv' & Hd'). exists v', raw', t'. auto.
  Qed.

  (* For ANY state string and ANY cookie list: if the callback gets past the state check, the
     request carries, under the cookie name derived from the state's nonce part, a cookie that
     passes signature/lifetime validation, decrypts to a CSRF record, and the hash of that
     record's state nonce is exactly the state's nonce part. *)
  Lemma callback_state_sound cfg state cookies now redeem_ok c rd :
    callback_state mac dec hash cfg state cookies now redeem_ok = CbStateOK c rd ->
    exists nonce v raw t,
      decode_state state (k_encode_state cfg) = Some (nonce, rd) /\
      In (generate_cookie_name cfg nonce, v) cookies /\
      validate mac (generate_cookie_name cfg nonce) v now (k_expire_ns cfg) = Some (raw, t) /\
      dec raw = Some c /\
      hash_nonce hash (cs_state c) = nonce /\ redeem_ok = true.
  Proof.
    unfold callback_state. intro H.
    destruct (decode_state state (k_encode_state cfg)) as [[nonce rd']|] eqn:Hd; [|discriminate].
    destruct (load_csrf mac dec cfg cookies (generate_cookie_name cfg nonce) now) as [c'|] eqn:Hl; [|discriminate].
    destruct redeem_ok; simpl in H; [|discriminate].
    destruct (check_state hash c' nonce) eqn:Hc; [|discriminate].
    inversion H; subst c' rd'. clear H.
    apply load_csrf_inv in Hl as (v & raw & t & Hin & Hv & Hdec).
    unfold check_state in Hc. apply str_eqb_eq in Hc.
    exists nonce, v, raw, t. repeat split; auto.
  Qed.

  (* no session can result from a callback without any cookie, or whose state carries no ':' *)
  Lemma callback_no_cookie cfg state now redeem_ok c rd :
    callback_state mac dec hash cfg state [] now redeem_ok <> CbStateOK c rd.
  Proof.
    unfold callback_state. destruct (decode_state state (k_encode_state cfg)) as [[n r]|]; simpl; discriminate.
  Qed.

  (* ---- completeness ---- *)
  Hypothesis hash_len : forall x, length (hash x) = 43%nat.
  Hypothesis hash_no_colon : forall x, memb colon_b (hash x) = false.
  Hypothesis hash_bytes : forall x, is_bytes (hash x).

  Lemma index_of_app_first c (a b : str) :
    memb c a = false -> index_of c (a ++ c :: b) = Some (length a).
  Proof.
    induction a as [|x a IH]; simpl; intro H.
    - rewrite N.eqb_refl. reflexivity.
    - apply orb_false_iff in H as [H1 H2]. rewrite H1, (IH H2). reflexivity.
  Qed.

  Lemma firstn_len_app (a b : str) : firstn (length a) (a ++ b) = a.
  Proof. induction a as [|x a IH]; simpl; [destruct b; reflexivity|rewrite IH; reflexivity]. Qed.

  Lemma skipn_S_len_app (a b : str) c : skipn (S (length a)) (a ++ c :: b) = b.
  Proof. induction a as [|x a IH]; simpl; [reflexivity|exact IH]. Qed.

  Lemma split_first_colon_app (a b : str) :
    memb colon_b a = false -> split_first_colon (a ++ colon_b :: b) = Some (a, b).
  Proof.
    intro H. unfold split_first_colon. rewrite index_of_app_first by exact H.
    rewrite firstn_len_app, skipn_S_len_app. reflexivity.
  Qed.

  Lemma decode_encode_state nonce rd enc :
    memb colon_b nonce = false -> is_bytes nonce -> is_bytes rd ->
    decode_state (encode_state nonce rd enc) enc = Some (nonce, rd).
  Proof.
    intros Hc Hn Hr. unfold decode_state, encode_state. destruct enc.
    - rewrite rawurl_partial_roundtrip.
      + apply split_first_colon_app. exact Hc.
      + apply Forall_app. split; [exact Hn|]. apply Forall_cons; [reflexivity|exact Hr].
    - apply split_first_colon_app. exact Hc.
  Qed.

  Lemma generate_own_name cfg c :
    cs_state c <> [] ->
    generate_cookie_name cfg (hash_nonce hash (cs_state c)) = own_cookie_name hash cfg c.
  Proof.
    intro Hne. unfold generate_cookie_name, own_cookie_name. destruct (k_per_request cfg); [|reflexivity].
    unfold extract_state_substring, hash_nonce. destruct (cs_state c) as [|x xs]; [congruence|].
    rewrite hash_len. reflexivity.
  Qed.

  Lemma load_csrf_first_valid cfg cookies name now c :
    (exists v, In (name, v) cookies /\ decode_csrf_cookie mac dec cfg name v now = Some c) ->
    (forall v', In (name, v') cookies ->
       decode_csrf_cookie mac dec cfg name v' now = None \/
       decode_csrf_cookie mac dec cfg name v' now = Some c) ->
    load_csrf mac dec cfg cookies name now = Some c.
  Proof.
    induction cookies as [|[n v0] rest IH]; intros (v & Hin & Hd) Hall; [destruct Hin|].
    simpl. destruct (str_eqb n name) eqn:En.
    - apply str_eqb_eq in En. subst n.
      destruct (Hall v0 (or_introl eq_refl)) as [Hn|Hs].
      + rewrite Hn. apply IH.
        * destruct Hin as [E|Hin]; [inversion E; subst; congruence|]. exists v. auto.
        * intros v' Hv'. apply Hall. right. exact Hv'.
      + rewrite Hs. reflexivity.
    - apply IH.
      + destruct Hin as [E|Hin]; [inversion E; subst; rewrite str_eqb_refl in En; discriminate|]. exists v. auto.
      + intros v' Hv'. apply Hall. right. exact Hv'.
  Qed.

  (* A callback that carries the unmodified state of a login this proxy started and that login's
     CSRF cookie (a cookie under the login's own name that validates and decrypts to the login's
     record) passes the state check - whatever other cookies the browser sends along, provided no
     other cookie under that same name decodes to a different record (distinct state substrings of
     outstanding logins with per-request cookies; the single shared name otherwise). *)
  Lemma callback_state_complete cfg c rd cookies now :
    cs_state c <> [] -> is_bytes rd ->
    (exists v, In (own_cookie_name hash cfg c, v) cookies /\
               decode_csrf_cookie mac dec cfg (own_cookie_name hash cfg c) v now = Some c) ->
    (forall v', In (own_cookie_name hash cfg c, v') cookies ->
       decode_csrf_cookie mac dec cfg (own_cookie_name hash cfg c) v' now = None \/
       decode_csrf_cookie mac dec cfg (own_cookie_name hash cfg c) v' now = Some c) ->
    callback_state mac dec hash cfg (start_state hash cfg c rd) cookies now true = CbStateOK c rd.
  Proof.
    intros Hne Hrd Hex Hall. unfold callback_state, start_state.
    assert (Hh : hash_nonce hash (cs_state c) = hash (cs_state c))
      by (unfold hash_nonce; destruct (cs_state c); [congruence|reflexivity]).
    rewrite decode_encode_state.
    - rewrite generate_own_name by exact Hne.
      rewrite (load_csrf_first_valid cfg cookies _ now c Hex Hall). simpl.
      unfold check_state. rewrite str_eqb_refl. reflexivity.
    - rewrite Hh. apply hash_no_colon.
    - rewrite Hh. apply hash_bytes.
    - exact Hrd.
  Qed.

  (* the cookie doOAuthStart issues decodes back to the login's record *)
  Variable encr : csrf -> str.
  Hypothesis dec_encr : forall c, dec (encr c) = Some c.
  Hypothesis encr_bytes : forall c, is_bytes (encr c).
  Hypothesis mac_bytes : forall m, is_bytes (mac m).

  Definition issued_cookie (cfg : csrf_cfg) (c : csrf) (t : Z) : str * str :=
    (own_cookie_name hash cfg c, signed_value mac (own_cookie_name hash cfg c) (encr c) t).

  Lemma issued_cookie_decodes cfg c t now :
    ts_ok t = true -> in_window t now (k_expire_ns cfg) = true ->
    decode_csrf_cookie mac dec cfg (fst (issued_cookie cfg c t)) (snd (issued_cookie cfg c t)) now = Some c.
  Proof.
    intros Hts Hw. unfold decode_csrf_cookie, issued_cookie. simpl.
    rewrite (validate_signed_value mac mac_bytes); auto.
  Qed.

  (* start followed by callback in the same browser: the login completes whatever other cookies
     (other logins' CSRF cookies, session cookies, foreign cookies) are sent along under other names *)
  Lemma start_then_callback cfg c rd t now (others : list (str * str)) before :
    cs_state c <> [] -> is_bytes rd ->
    ts_ok t = true -> in_window t now (k_expire_ns cfg) = true ->
    (forall n v, In (n, v) (before ++ others) -> n <> own_cookie_name hash cfg c) ->
    callback_state mac dec hash cfg (start_state hash cfg c rd)
                   (before ++ issued_cookie cfg c t :: others) now true = CbStateOK c rd.
  Proof.
    intros Hne Hrd Hts Hw Hoth. apply callback_state_complete; auto.
    - exists (snd (issued_cookie cfg c t)). split.
      + apply in_or_app. right. left. reflexivity.
      + apply (issued_cookie_decodes cfg c t now Hts Hw).
    - intros v' Hin. apply in_app_or in Hin as [Hin|[E|Hin]].
      + exfalso. eapply Hoth; [apply in_or_app; left; exact Hin|reflexivity].
      + inversion E; subst v'. right. apply (issued_cookie_decodes cfg c t now Hts Hw).
      + exfalso. eapply Hoth; [apply in_or_app; right; exact Hin|reflexivity].
  Qed.
End CsrfProofs.
