(* C05: PKCE verifier shape, challenge derivation, redemption with the login's own verifier. *)
From V.Lib Require Import Bytes Base64.
From V.Gen Require Import Consts.
From V.Model Require Import Csrf Pkce.
From V.Proofs Require Import Base64Proofs.
Open Scope N_scope.

Lemma nopad_unreserved c : is_b64url_nopad c = true -> is_unreserved c = true.
Proof.
  unfold is_b64url_nopad, is_unreserved. intro H.
  apply orb_true_iff in H as [H|H]; [apply orb_true_iff in H as [H|H]|]; rewrite H; rewrite ?orb_true_r; reflexivity.
Qed.

(* the verifier built from verifier_bytes (= 96, regenerated from the source) random bytes has
   128 characters - inside RFC 7636's 43..128 - all of them unreserved *)
Lemma verifier_shape rnd :
  Z.of_nat (length rnd) = verifier_bytes -> is_bytes rnd ->
  length (code_verifier rnd) = 128%nat /\ (43 <= length (code_verifier rnd) <= 128)%nat /\
  forallb is_unreserved (code_verifier rnd) = true.
Proof.
  intros Hl Hb. unfold verifier_bytes in Hl.
  assert (Hlen : length rnd = (3 * 32)%nat) by lia.
  unfold code_verifier, rawurl_encode.
  rewrite (encode_length_mult3 Url false 32 rnd Hlen). split; [reflexivity|]. split; [lia|].
  pose proof (rawurl_encode_chars (length rnd) rnd (le_n _) Hb) as Hc.
  rewrite forallb_forall in *. intros c Hin. apply nopad_unreserved. apply Hc. exact Hin.
Qed.

(* distinct randomness gives distinct verifiers (the encoder is injective on byte strings) *)
Lemma verifier_injective r1 r2 :
  is_bytes r1 -> is_bytes r2 -> code_verifier r1 = code_verifier r2 -> r1 = r2.
Proof.
  intros H1 H2 E. unfold code_verifier in E.
  pose proof (rawurl_roundtrip r1 H1) as A. pose proof (rawurl_roundtrip r2 H2) as B.
  rewrite E in A. rewrite A in B. inversion B. reflexivity.
Qed.

(* the challenge sent in the authorization request is derived from exactly the verifier kept in
   the CSRF cookie, by the configured method *)
Lemma start_challenge_matches sha256 m rnd :
  m <> PkceNone ->
  st_challenge (oauth_start_pkce sha256 m rnd) = code_challenge sha256 m (st_verifier (oauth_start_pkce sha256 m rnd)) /\
  st_verifier (oauth_start_pkce sha256 m rnd) = code_verifier rnd.
Proof. intro H. destruct m; [congruence| |]; simpl; auto. Qed.

Lemma no_method_no_pkce sha256 rnd :
  oauth_start_pkce sha256 PkceNone rnd = {| st_verifier := []; st_challenge := None |}.
Proof. reflexivity. Qed.

(* ---- the method as configured (a string) ---- *)
Lemma str_eqb_eq' a b : str_eqb a b = true -> a = b.
Proof. apply str_eqb_eq. Qed.

(* a method string that is neither empty, "S256" nor "plain" starts no login: nothing is sent *)
Lemma unknown_method_refused sha256 m rnd :
  m <> [] -> m <> s "S256" -> m <> s "plain" -> start_by_string sha256 m rnd = None.
Proof.
  intros H0 H1 H2. unfold start_by_string, method_of_string. destruct m as [|c r]; [congruence|].
  destruct (str_eqb (c :: r) (s "S256")) eqn:E1; [apply str_eqb_eq' in E1; congruence|].
  destruct (str_eqb (c :: r) (s "plain")) eqn:E2; [apply str_eqb_eq' in E2; congruence|]. reflexivity.
Qed.

(* what IS sent carries the verifier as its challenge only under the method "plain" - or if the verifier happened to
   be a fixed point of the S256 derivation *)
Lemma verifier_in_clear_only_plain sha256 m rnd st :
  start_by_string sha256 m rnd = Some st -> st_challenge st = Some (st_verifier st) ->
  m = s "plain" \/ rawurl_encode (sha256 (st_verifier st)) = st_verifier st.
Proof.
  unfold start_by_string, method_of_string. intros H Hc. destruct m as [|c r].
  - inversion H; subst. cbn in Hc. discriminate.
  - destruct (str_eqb (c :: r) (s "S256")) eqn:E1.
    + inversion H; subst. cbn in Hc. right. inversion Hc as [Hx]. rewrite Hx. exact Hx.
    + destruct (str_eqb (c :: r) (s "plain")) eqn:E2; [|discriminate]. left. apply str_eqb_eq'. exact E2.
Qed.
