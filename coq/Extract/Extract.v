(* Extraction of the executable model for the correspondence driver.
   ExtrOcamlBasic only: bool, option, unit, prod, list, sumbool, sumor map to OCaml's own types;
   N, Z, positive, nat stay Coq datatypes (no Extract Constant of ours). *)
From Coq Require Import Extraction ExtrOcamlBasic.
From V.Lib Require Import Bytes Base64.
From V.Lib Require Import NetAddr.
From V.Model Require Import Signed Cookies CookieStore Jar JarSession Csrf Ticket Bypass Authz Headers Redirect SignOut Refresh StoreFaults Oidc Pkce Upstream Proxy Symbolic Compose Lifetime RefreshChain GenericProvider LegacyHeaders GoPath SignOutRace StampRace Probe JwtIssuers.
Extraction Blacklist String List Nat Bytes Int Char Array Buffer Hashtbl Printf Sx Conv Adapters Driver.
Set Extraction Optimize.
Separate Extraction
  Bytes.digits_val Bytes.itoa Bytes.atoi Bytes.str_eqb Bytes.assoc
  Base64.decode Base64.encode
  Signed.validate Signed.signed_value
  NetAddr.split_host_port
  Cookies.make_cookie Cookies.cookie_string Cookies.select_domain
  CookieStore.store_save CookieStore.store_load CookieStore.store_clear CookieStore.split_cookie_name
  CookieStore.load_cookie
  Jar.jar_apply Jar.jar_cookies JarSession.jar_run
  Csrf.callback_state Csrf.decode_state Csrf.encode_state Csrf.generate_cookie_name Csrf.own_cookie_name Csrf.start_state Csrf.load_csrf
  Ticket.decode_ticket Ticket.encode_ticket Ticket.ticket_from_request Ticket.manager_load Ticket.manager_clear Ticket.manager_save
  Bypass.parse_route Bypass.is_allowed_route Bypass.is_allowed_request Bypass.build_set Bypass.set_has Bypass.canonical Bypass.is_trusted_ip Bypass.request_path
  Authz.email_valid Authz.login_admits Authz.auth_only_authorize Authz.is_endpoint_allowed Authz.get_authenticated_session Authz.authorize Authz.split_host_port_lax
  Headers.request_headers Headers.response_headers Headers.hget Headers.canon
  Redirect.is_valid_redirect Redirect.get_redirect Redirect.callback_redirect Redirect.oauth_redirect_uri Redirect.browser_same_host Redirect.get_request_host
  SignOut.sign_out_ticket_store SignOut.sign_out_cookie_store SignOut.apply_op SignOut.kv_get
  Refresh.run Refresh.init Refresh.step Refresh.seq_refresh Refresh.expire_lock
  StoreFaults.stored_request StoreFaults.callback_save StoreFaults.sign_out StoreFaults.ready_probe
  Oidc.redeem Oidc.refresh_identity Oidc.session_from_bearer Oidc.check_nonce Oidc.validate_session Oidc.verify_token Oidc.lib_parse_ok
  Pkce.code_verifier Pkce.code_challenge Pkce.oauth_start_pkce
  GoPath.location_header SignOutRace.run SignOutRace.init SignOutRace.both_done StampRace.run StampRace.init StampRace.is_served Upstream.route Upstream.route_gen Upstream.first_match Upstream.less Upstream.forwarded_query Symbolic.auth_request_shape Compose.serve_request Lifetime.redeem_fallbacks Lifetime.request_nonrefreshing RefreshChain.chain_run GenericProvider.generic_login GenericProvider.generic_validate LegacyHeaders.legacy_request_headers LegacyHeaders.legacy_response_headers
  Proxy.serve Proxy.session_chain Proxy.discloses
  Probe.probe Pkce.method_of_string JwtIssuers.parse_jwt_issuer.
