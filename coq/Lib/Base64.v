(* encoding/base64 as Go implements it (non-strict decoders):
   CR and LF are skipped everywhere, padded alphabets need complete quanta, the trailing
   bits of a final partial quantum are NOT checked, anything after padding is an error. *)
From V.Lib Require Import Bytes.
Open Scope N_scope.

Inductive alphabet := Std | Url.

Definition enc_char (a : alphabet) (v : N) : N :=
  if v <? 26 then 65 + v
  else if v <? 52 then 97 + (v - 26)
  else if v <? 62 then 48 + (v - 52)
  else if v =? 62 then (match a with Std => 43 | Url => 45 end)
  else (match a with Std => 47 | Url => 95 end).

Definition dec_char (a : alphabet) (c : N) : option N :=
  if is_upper c then Some (c - 65)
  else if is_lower c then Some (c - 97 + 26)
  else if is_digit c then Some (c - 48 + 52)
  else match a with
       | Std => if c =? 43 then Some 62 else if c =? 47 then Some 63 else None
       | Url => if c =? 45 then Some 62 else if c =? 95 then Some 63 else None
       end.

Definition pad : N := 61.

(* ---- encoding ---- *)
Fixpoint encode (a : alphabet) (padded : bool) (l : str) : str :=
  match l with
  | [] => []
  | [x] => [enc_char a (x / 4); enc_char a ((x mod 4) * 16)]
           ++ (if padded then [pad; pad] else [])
  | [x; y] => [enc_char a (x / 4); enc_char a ((x mod 4) * 16 + y / 16);
               enc_char a ((y mod 16) * 4)]
              ++ (if padded then [pad] else [])
  | x :: y :: z :: l' =>
    enc_char a (x / 4) :: enc_char a ((x mod 4) * 16 + y / 16)
    :: enc_char a ((y mod 16) * 4 + z / 64) :: enc_char a (z mod 64) :: encode a padded l'
  end.

(* ---- decoding ---- *)
Definition not_crlf (c : N) : bool := negb ((c =? 10) || (c =? 13)).

Definition q3 (s0 s1 s2 s3 : N) : str :=
  [s0 * 4 + s1 / 16; (s1 mod 16) * 16 + s2 / 4; (s2 mod 4) * 64 + s3].

(* on input already stripped of CR/LF; structurally recursive through the tail *)
Fixpoint decode_q (a : alphabet) (padded : bool) (l : str) : option str :=
  match l with
  | [] => Some []
  | c0 :: t0 =>
    match dec_char a c0, t0 with
    | Some s0, c1 :: t1 =>
      match dec_char a c1, t1 with
      | Some s1, [] => if padded then None else Some [s0 * 4 + s1 / 16]
      | Some s1, c2 :: t2 =>
        match dec_char a c2, t2 with
        | Some s2, [] =>
          if padded then None else Some [s0 * 4 + s1 / 16; (s1 mod 16) * 16 + s2 / 4]
        | Some s2, c3 :: t3 =>
          match dec_char a c3 with
          | Some s3 =>
            match decode_q a padded t3 with
            | Some r => Some (q3 s0 s1 s2 s3 ++ r)
            | None => None
            end
          | None =>
            (* c0 c1 c2 '=' and nothing after *)
            if padded && (c3 =? pad) then
              match t3 with
              | [] => Some [s0 * 4 + s1 / 16; (s1 mod 16) * 16 + s2 / 4]
              | _ => None
              end
            else None
          end
        | None, c3 :: t3 =>
          (* c0 c1 '=' '=' and nothing after *)
          if padded && (c2 =? pad) && (c3 =? pad) then
            match t3 with
            | [] => Some [s0 * 4 + s1 / 16]
            | _ => None
            end
          else None
        | None, [] => None
        end
      | None, _ => None
      end
    | _, _ => None
    end
  end.

Definition decode (a : alphabet) (padded : bool) (l : str) : option str :=
  decode_q a padded (filter not_crlf l).

(* the four codecs the repository uses *)
Definition url_encode := encode Url true.        (* base64.URLEncoding *)
Definition url_decode := decode Url true.
Definition rawurl_encode := encode Url false.    (* base64.RawURLEncoding *)
Definition rawurl_decode := decode Url false.
Definition std_encode := encode Std true.        (* base64.StdEncoding *)
Definition std_decode := decode Std true.

(* characters that can appear in any encoder output *)
Definition is_b64url_char (c : N) : bool :=
  is_alnum c || (c =? 45) || (c =? 95) || (c =? pad).

(* DecodeString with the error ignored (`decoded, _ := base64.RawURLEncoding.DecodeString(s)`):
   Go returns the bytes of the quanta decoded before the first error.  Unpadded alphabets only. *)
Fixpoint decode_partial_q (a : alphabet) (l : str) : str :=
  match l with
  | [] => []
  | c0 :: t0 =>
    match dec_char a c0, t0 with
    | Some s0, c1 :: t1 =>
      match dec_char a c1, t1 with
      | Some s1, [] => [s0 * 4 + s1 / 16]
      | Some s1, c2 :: t2 =>
        match dec_char a c2, t2 with
        | Some s2, [] => [s0 * 4 + s1 / 16; (s1 mod 16) * 16 + s2 / 4]
        | Some s2, c3 :: t3 =>
          match dec_char a c3 with
          | Some s3 => q3 s0 s1 s2 s3 ++ decode_partial_q a t3
          | None => []
          end
        | None, _ => []
        end
      | None, _ => []
      end
    | _, _ => []
    end
  end.

Definition rawurl_decode_partial (l : str) : str := decode_partial_q Url (filter not_crlf l).
