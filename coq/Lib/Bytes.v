(* Byte strings as lists of N, with the Go string operations the models use.
   Model code only: no proofs here beyond tiny reflection lemmas. *)
From Coq Require Export String Ascii.
From Coq Require Export List NArith ZArith Bool Lia.
Export ListNotations.
Open Scope N_scope.

Definition str := list N.

(* literal helper: s "abc" is the byte list of an ASCII literal *)
Definition s (x : string) : str := List.map N_of_ascii (list_ascii_of_string x).

Fixpoint str_eqb (a b : str) : bool :=
  match a, b with
  | [], [] => true
  | x :: a', y :: b' => (x =? y) && str_eqb a' b'
  | _, _ => false
  end.

Lemma str_eqb_eq a b : str_eqb a b = true <-> a = b.
Proof.
  revert b; induction a as [|x a IH]; destruct b as [|y b]; simpl; split; intro H;
    try reflexivity; try discriminate.
  - apply andb_true_iff in H as [H1 H2]. apply N.eqb_eq in H1. apply IH in H2. congruence.
  - inversion H; subst. rewrite N.eqb_refl. simpl. apply IH. reflexivity.
Qed.

Lemma str_eqb_refl a : str_eqb a a = true.
Proof. apply str_eqb_eq. reflexivity. Qed.

Lemma str_eqb_neq a b : str_eqb a b = false <-> a <> b.
Proof.
  split; intro H.
  - intro E. apply str_eqb_eq in E. congruence.
  - destruct (str_eqb a b) eqn:E; [apply str_eqb_eq in E; contradiction|reflexivity].
Qed.

Fixpoint prefixb (p l : str) : bool :=
  match p, l with
  | [], _ => true
  | x :: p', y :: l' => (x =? y) && prefixb p' l'
  | _ :: _, [] => false
  end.

Definition suffixb (sf l : str) : bool := prefixb (rev sf) (rev l).

(* strings.Contains for a byte *)
Fixpoint memb (c : N) (l : str) : bool :=
  match l with [] => false | x :: l' => (x =? c) || memb c l' end.

(* strings.Contains for a substring *)
Fixpoint containsb (sub l : str) : bool :=
  prefixb sub l || match l with [] => false | _ :: l' => containsb sub l' end.

(* strings.Split(l, sep) for a one-byte separator: always at least one field *)
Fixpoint split_on (sep : N) (l : str) : list str :=
  match l with
  | [] => [[]]
  | x :: l' =>
    if x =? sep then [] :: split_on sep l'
    else match split_on sep l' with
         | [] => [[x]]          (* unreachable *)
         | f :: fs => (x :: f) :: fs
         end
  end.

Fixpoint join (sep : str) (ls : list str) : str :=
  match ls with
  | [] => []
  | [x] => x
  | x :: ls' => x ++ sep ++ join sep ls'
  end.

(* strings.IndexByte *)
Fixpoint index_of (c : N) (l : str) : option nat :=
  match l with
  | [] => None
  | x :: l' => if x =? c then Some O else option_map S (index_of c l')
  end.

(* strings.LastIndexByte *)
Fixpoint last_index_of (c : N) (l : str) : option nat :=
  match l with
  | [] => None
  | x :: l' => match last_index_of c l' with
               | Some i => Some (S i)
               | None => if x =? c then Some O else None
               end
  end.

(* text after the last occurrence of c (whole string if none): used for "part after the last @" *)
Definition after_last (c : N) (l : str) : str :=
  match last_index_of c l with Some i => skipn (S i) l | None => l end.

Definition is_digit (c : N) : bool := (48 <=? c) && (c <=? 57).
Definition is_upper (c : N) : bool := (65 <=? c) && (c <=? 90).
Definition is_lower (c : N) : bool := (97 <=? c) && (c <=? 122).
Definition is_alpha (c : N) : bool := is_upper c || is_lower c.
Definition is_alnum (c : N) : bool := is_alpha c || is_digit c.

Definition lower_byte (c : N) : N := if is_upper c then c + 32 else c.
Definition upper_byte (c : N) : N := if is_lower c then c - 32 else c.
Definition to_lower (l : str) : str := List.map lower_byte l.
Definition to_upper (l : str) : str := List.map upper_byte l.

Definition all_digits (l : str) : bool := forallb is_digit l.

(* value of a digit string, most significant first *)
Fixpoint digits_val_acc (acc : Z) (l : str) : Z :=
  match l with
  | [] => acc
  | c :: l' => digits_val_acc (acc * 10 + Z.of_N (c - 48)) l'
  end.
Definition digits_val (l : str) : Z := digits_val_acc 0 l.

(* strconv.Atoi on a 64-bit platform: optional sign, at least one digit, digits only,
   value within int64 *)
Definition int64_min : Z := (- 9223372036854775808)%Z.
Definition int64_max : Z := 9223372036854775807%Z.
Definition atoi (l : str) : option Z :=
  let '(neg, ds) := match l with
                    | 45 :: r => (true, r)
                    | 43 :: r => (false, r)
                    | _ => (false, l)
                    end in
  match ds with
  | [] => None
  | _ => if all_digits ds then
           let v := if neg then (- digits_val ds)%Z else digits_val ds in
           if ((int64_min <=? v) && (v <=? int64_max))%Z then Some v else None
         else None
  end.

(* decimal rendering of a non-negative number (fmt %d), fuelled by the number of bits *)
Fixpoint itoa_pos (fuel : nat) (n : N) (acc : str) : str :=
  match fuel with
  | O => acc
  | S f => let acc' := (48 + n mod 10) :: acc in
           if n / 10 =? 0 then acc' else itoa_pos f (n / 10) acc'
  end.
Definition itoa_N (n : N) : str := itoa_pos (S (N.to_nat (N.size n))) n [].
Definition itoa (z : Z) : str :=
  match z with
  | Z0 => [48]
  | Zpos p => itoa_N (Npos p)
  | Zneg p => 45 :: itoa_N (Npos p)
  end.

Definition nth_byte (l : str) (i : nat) : option N := nth_error l i.

(* association-list lookup keyed by byte strings *)
Fixpoint assoc {A} (k : str) (l : list (str * A)) : option A :=
  match l with
  | [] => None
  | (k', v) :: l' => if str_eqb k k' then Some v else assoc k l'
  end.

Definition is_bytes (l : str) : Prop := Forall (fun c => c < 256) l.
Definition is_bytesb (l : str) : bool := forallb (fun c => c <? 256) l.
