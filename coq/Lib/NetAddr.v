(* net.SplitHostPort (go1.23), as used to strip the port from a Host value *)
From V.Lib Require Import Bytes.
Open Scope N_scope.

Definition colon : N := 58.
Definition lbrack : N := 91.
Definition rbrack : N := 93.

(* returns Some (host, port) or None on any error *)
Definition split_host_port (hp : str) : option (str * str) :=
  match last_index_of colon hp with
  | None => None
  | Some i =>
    match hp with
    | [] => None
    | c0 :: _ =>
      if c0 =? lbrack then
        match index_of rbrack hp with
        | None => None
        | Some e =>
          if Nat.eqb (S e) i then
            let host := firstn (e - 1) (skipn 1 hp) in
            (* no '[' after position 1, no ']' after position e+1 *)
            if memb lbrack (skipn 1 hp) then None
            else if memb rbrack (skipn (S e) hp) then None
            else Some (host, skipn (S i) hp)
          else None
        end
      else
        let host := firstn i hp in
        if memb colon host then None
        else if memb lbrack hp then None
        else if memb rbrack hp then None
        else Some (host, skipn (S i) hp)
    end
  end.

(* `if h, _, err := net.SplitHostPort(host); err == nil { host = h }` *)
Definition strip_port (host : str) : str :=
  match split_host_port host with Some (h, _) => h | None => host end.
