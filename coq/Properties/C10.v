From V.Lib Require Import Bytes.
From V.Model Require Import CookieStore Jar.
