(* C10 - a saved session is what the next request loads, across any save history.
   Only statements and `exact`; the lemmas live in Proofs/. *)
From V.Lib Require Import Bytes Base64 NetAddr.
From V.Gen Require Import Consts.
From V.Model Require Import Signed Cookies CookieStore Jar.
From V.Proofs Require Import SignedProofs CookieStoreProofs.
Open Scope Z_scope.

(* Whatever the configuration, request host and signed value: the cookies emitted for a session
   concatenate (in order) to the signed value, each serialises to at most maxCookieLength <= 4096
   bytes (maxCookieLength regenerated from the source), all parts carry the attributes of the
   unsplit cookie, and they are either the single cookie under the configured name or numbered
   name_0 .. name_{n-1}. *)
Theorem c10_parts : forall cfg host signed parts,
  make_session_cookie cfg host signed = Some parts ->
  let c := make_cookie cfg host (c_name cfg) signed (c_expire_ns cfg) in
  concat (map sc_value parts) = signed /\
  Forall (fun p => cookie_len p <= max_cookie_length) parts /\
  Forall (fun p => attrs_string p = attrs_string c) parts /\
  (parts = [c] \/ map sc_name parts = map (split_cookie_name (c_name cfg)) (seq 0 (length parts))).
Proof. exact make_session_cookie_spec. Qed.
Print Assumptions c10_parts.

Theorem c10_limit_le_4096 : max_cookie_length <= 4096.
Proof. exact max_cookie_length_le_4096. Qed.
Print Assumptions c10_limit_le_4096.

(* The split loop terminates with a result whenever a numbered name plus the attributes alone stay
   below the limit (observation O2: otherwise the Go loop cannot make progress either). *)
Theorem c10_split_progress : forall fuel c base count rest,
  (length rest <= fuel)%nat ->
  (forall k, zlen (split_cookie_name base k) + 1 + attrs_len c < max_cookie_length) ->
  split_loop fuel c base count rest <> None.
Proof. exact split_loop_progress. Qed.
Print Assumptions c10_split_progress.

(* Save then Load, for every configuration with a valid cookie name, every non-empty value of any
   size, every earlier cookie set `cs` the request presented: the response is deletions followed
   by the new cookies, and every request that presents exactly the new cookies (what a browser jar
   holds after applying the response) loads exactly the saved value and timestamp. *)
Theorem c10_load_after_save : forall (mac : str -> str), (forall m, is_bytes (mac m)) ->
  forall cfg host cs value created hdrs,
  zlen (c_name cfg) <= split_name_limit ->
  value <> [] -> is_bytes value -> ts_ok created = true ->
  store_save mac cfg host cs value created = Some hdrs ->
  exists dels parts,
    hdrs = dels ++ parts /\
    make_session_cookie cfg host (signed_value mac (c_name cfg) value created) = Some parts /\
    Forall (fun d => sc_maxage d < 0 /\ sc_value d = []) dels /\
    forall cs' now,
      presents (c_name cfg) parts cs' ->
      in_window created now (c_expire_ns cfg) = true ->
      store_load mac cfg cs' now = Some (value, created).
Proof. exact store_load_after_save. Qed.
Print Assumptions c10_load_after_save.

(* Clear: every presented cookie belonging to the session (the name itself, name_<digits>, or a
   truncated numbered name) is deleted under its own name, with the configured path and the
   selected domain. *)
Theorem c10_clear_complete : forall cfg host cs already n v,
  In (n, v) cs -> is_session_name (c_name cfg) n = true ->
  exists d, In d (store_clear cfg host cs already) /\ sc_name d = n /\ sc_maxage d < 0.
Proof. exact store_clear_complete. Qed.
Print Assumptions c10_clear_complete.

Theorem c10_clear_only_deletes : forall cfg host cs already,
  Forall (fun d => sc_maxage d < 0 /\ sc_value d = [] /\ sc_path d = c_path cfg /\
                   sc_domain d = select_domain host (c_domains cfg))
         (store_clear cfg host cs already).
Proof. exact store_clear_deletes. Qed.
Print Assumptions c10_clear_only_deletes.

(* non-vacuity: a 3100-byte value under the default name really is split in two parts, and the
   request presenting those two parts loads it back *)
Definition ex_cfg : ccfg :=
  {| c_name := s "_oauth2_proxy"; c_path := s "/"; c_domains := []; c_secure := true;
     c_httponly := true; c_samesite := 1%N; c_expire_ns := 3600000000000 |}.
Definition ex_mac (m : str) : str := repeat 7%N 32.
Definition ex_value : str := repeat 65%N (Z.to_nat 3100).
Example c10_nonvacuous :
  match store_save ex_mac ex_cfg (s "app.example.com") [] ex_value 1790000000 with
  | Some [p0; p1] =>
      store_load ex_mac ex_cfg [(sc_name p0, sc_value p0); (sc_name p1, sc_value p1)] 1790000100000000000
      = Some (ex_value, 1790000000)
  | _ => False
  end.
Proof. vm_compute. reflexivity. Qed.

(* ---- the history clause, over the browser jar (Model/Jar.v, Model/JarSession.v) ----
   Start from any jar in which no cookie of the session family (the name itself, name_<digits>, a
   truncated numbered name) sits under another domain or path; run ANY sequence of saves (values of
   any size below 2^63 bytes once signed) and clears, each applied to the jar as a browser applies
   Set-Cookie headers, each computed from what the jar presents at that moment.  Then: the cookies
   outside the family are untouched; if the last operation was a save, the next request loads
   exactly that value and timestamp (no stale part of an earlier, larger or smaller, session
   survives); if it was a clear, no cookie of the family is left and nothing loads. *)
From V.Model Require Import JarSession.
From V.Proofs Require Import JarProofs.

Theorem c10_history : forall (mac : str -> str), (forall m, is_bytes (mac m)) ->
  forall cfg host,
  zlen (c_name cfg) < split_name_limit -> 0 <= c_expire_ns cfg ->
  forall pre o j0 j',
  let name := c_name cfg in
  let D := select_domain host (c_domains cfg) in
  let P := c_path cfg in
  dom_ok name D P j0 -> Forall (op_ok mac cfg) (pre ++ [o]) ->
  jar_run mac cfg host j0 (pre ++ [o]) = Some j' ->
  dom_ok name D P j' /\ filter (otherb name) j' = filter (otherb name) j0 /\
  match o with
  | OpSave v t => forall now, in_window t now (c_expire_ns cfg) = true ->
                              store_load mac cfg (jar_cookies j') now = Some (v, t)
  | OpClear => filter (sessb name) j' = [] /\ forall now, store_load mac cfg (jar_cookies j') now = None
  end.
Proof. exact jar_history. Qed.
Print Assumptions c10_history.

(* A clear on a response that already carries cookies (a refresh earlier in the same request, then the refreshed
   session is refused or the user signs out): the deletions are computed from the presented cookies AND the names
   already set on the response.  Whatever those further names are, the family of the presenting jar is emptied, the
   next request loads nothing, and no other cookie is touched. *)
Theorem c10_clear_with_response_cookies : forall (mac : str -> str), (forall m, is_bytes (mac m)) ->
  forall cfg host,
  zlen (c_name cfg) < split_name_limit -> 0 <= c_expire_ns cfg ->
  forall j extra,
  let name := c_name cfg in
  let D := select_domain host (c_domains cfg) in
  let P := c_path cfg in
  dom_ok name D P j ->
  dom_ok name D P (jar_apply j (store_clear cfg host (jar_cookies j) extra)) /\
  filter (otherb name) (jar_apply j (store_clear cfg host (jar_cookies j) extra)) = filter (otherb name) j /\
  filter (sessb name) (jar_apply j (store_clear cfg host (jar_cookies j) extra)) = [] /\
  forall now, store_load mac cfg (jar_cookies (jar_apply j (store_clear cfg host (jar_cookies j) extra))) now = None.
Proof. intros mac Hmac cfg host Hn He j extra name D P Hd. eapply clear_extra_step; eassumption. Qed.
Print Assumptions c10_clear_with_response_cookies.

(* the timestamp premise of the save theorems holds for every non-negative int64 *)
Theorem c10_ts_ok_range : forall t, 0 <= t <= int64_max -> ts_ok t = true.
Proof. exact ts_ok_range. Qed.
Print Assumptions c10_ts_ok_range.

(* non-vacuity: small save, 3100-byte save (split in two), clear, 6500-byte save (three parts),
   small save; a foreign cookie survives, the last save loads *)
Example c10_history_nonvacuous :
  let ops := [OpSave (repeat 66%N 40) 1790000000; OpSave ex_value 1790000001; OpClear;
              OpSave (repeat 67%N (Z.to_nat 6500)) 1790000002; OpSave (repeat 68%N 50) 1790000003] in
  let j0 := [{| j_name := s "other"; j_domain := []; j_path := s "/"; j_value := s "x" |}] in
  match jar_run ex_mac ex_cfg (s "app.example.com") j0 ops with
  | Some j' => length j' = 2%nat /\
               store_load ex_mac ex_cfg (jar_cookies j') 1790000100000000000 = Some (repeat 68%N 50, 1790000003)
  | None => False
  end.
Proof. vm_compute. split; reflexivity. Qed.

(* ---- the server-side store (persistence.Manager over a key-value store, Model/Ticket.v), against
   the same browser jar.  From ANY jar in which no cookie of the family sits under another domain or
   path and ANY store contents: after a save (which reuses the presented ticket when it validates,
   otherwise takes the fresh one) the next request presents a ticket cookie that validates, names the
   key just written and unseals to exactly the saved session; after a clear the jar presents no
   ticket and nothing loads.  Both steps preserve the jar invariant, so the statements chain over
   any history of saves and clears.  `seal`/`unseal` stand for AES-GCM under the ticket secret
   (premise: unseal inverts seal). *)
From V.Model Require Import Ticket.
From V.Proofs Require Import TicketStoreProofs.

Theorem c10_ticket_load_after_save : forall (mac : str -> str), (forall m, is_bytes (mac m)) ->
  forall seal unseal, (forall sec v, unseal sec (seal sec v) = Some v) ->
  forall cfg host, 0 <= c_expire_ns cfg ->
  forall j m v created fresh now now',
  let name := c_name cfg in
  let D := select_domain host (c_domains cfg) in
  let P := c_path cfg in
  dom_ok name D P j ->
  is_bytes (fst fresh) -> is_bytes (snd fresh) ->
  ts_ok created = true -> in_window created now' (c_expire_ns cfg) = true ->
  let '(j', m') := ticket_step mac seal cfg host now (j, m) (TSave v created fresh) in
  dom_ok name D P j' /\
  snd (manager_load mac str unseal m' cfg (jar_cookies j') now') = Some v.
Proof. exact ticket_load_after_save. Qed.
Print Assumptions c10_ticket_load_after_save.

Theorem c10_ticket_nothing_after_clear : forall (mac : str -> str) seal unseal cfg host j m now now',
  let name := c_name cfg in
  let D := select_domain host (c_domains cfg) in
  let P := c_path cfg in
  dom_ok name D P j ->
  let '(j', m') := ticket_step mac seal cfg host now (j, m) TClear in
  dom_ok name D P j' /\ manager_load mac str unseal m' cfg (jar_cookies j') now' = (None, None).
Proof. exact ticket_nothing_after_clear. Qed.
Print Assumptions c10_ticket_nothing_after_clear.

(* whole histories on the server-side store: after ANY sequence of saves and clears (any values, any
   times, any store contents to begin with) from a jar satisfying the family invariant - the empty jar
   of a new browser does - a further save makes the next request load exactly the saved session and a
   further clear leaves nothing to load *)
Theorem c10_ticket_history : forall (mac : str -> str), (forall m, is_bytes (mac m)) ->
  forall seal unseal, (forall sec v, unseal sec (seal sec v) = Some v) ->
  forall cfg host, 0 <= c_expire_ns cfg ->
  forall j m ops now o now',
  dom_ok (c_name cfg) (select_domain host (c_domains cfg)) (c_path cfg) j ->
  let st := ticket_run mac seal cfg host (j, m) ops in
  let st' := ticket_step mac seal cfg host now st o in
  match o with
  | TSave v created fresh =>
    is_bytes (fst fresh) -> is_bytes (snd fresh) -> ts_ok created = true ->
    in_window created now' (c_expire_ns cfg) = true ->
    snd (manager_load mac str unseal (snd st') cfg (jar_cookies (fst st')) now') = Some v
  | TClear => manager_load mac str unseal (snd st') cfg (jar_cookies (fst st')) now' = (None, None)
  end.
Proof. exact ticket_history. Qed.
Print Assumptions c10_ticket_history.

Example c10_ticket_history_starts_somewhere : forall name D P, dom_ok name D P [].
Proof. intros name D P e Hin. destruct Hin. Qed.

(* ---- what a save writes depends on that save alone ---- *)
From V.Gen Require Wiring.

(* lz4Compress REGENERATED on this run creates its buffer and writer inside the call and returns a copy read out of the
   buffer: the encoded value handed to the store is a function of the session being saved, not of other saves in flight
   (the histories of c10_history are per browser; this is what lets them be considered one at a time) *)
Theorem c10_compression_is_per_call :
  Wiring.lz4_compress_state = [s "buf := new(bytes.Buffer)"; s "zw := lz4.NewWriter(nil)"; s "zw.Reset(buf)"; s "compressed, err := io.ReadAll(buf)"].
Proof. vm_compute. reflexivity. Qed.
Print Assumptions c10_compression_is_per_call.
