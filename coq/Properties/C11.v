(* C11 - sign-out ends the session.
   Only statements and `exact`; the lemmas live in Proofs/. *)
From V.Lib Require Import Bytes NetAddr.
From V.Gen Require Import Consts.
From V.Model Require Import Signed Cookies CookieStore Ticket SignOut.
From V.Proofs Require Import SignOutProofs.
Open Scope Z_scope.

(* cookie store: every presented cookie of the session family (all parts of a split cookie) gets a
   deletion under its own name with the configured path and the selected domain *)
Theorem c11_cookies : forall cfg host cs already target n v,
  In (n, v) cs -> is_session_name (c_name cfg) n = true ->
  exists cookies, sign_out_cookie_store cfg host cs already target = SoRedirect target cookies /\
    exists d, In d cookies /\ sc_name d = n /\ sc_maxage d < 0 /\ sc_path d = c_path cfg /\
              sc_domain d = select_domain host (c_domains cfg).
Proof. exact sign_out_cookie_store_deletes. Qed.
Print Assumptions c11_cookies.

(* server-side store: the success redirect implies there was no cookie or the delete succeeded *)
Theorem c11_success_implies_deleted : forall mac cfg host cs now del_ok target cookies key,
  sign_out_ticket_store mac cfg host cs now del_ok target = (SoRedirect target cookies, key) ->
  find_cookie (c_name cfg) cs = None \/ (exists id, key = Some id /\ del_ok = true).
Proof. exact sign_out_ticket_success. Qed.
Print Assumptions c11_success_implies_deleted.

(* a sign-out that could not remove the stored session is answered with the error page *)
Theorem c11_error : forall mac cfg host cs now target id sec,
  ticket_from_request mac cfg cs now = Some (id, sec) ->
  exists cookies, sign_out_ticket_store mac cfg host cs now false target = (SoError cookies, Some id).
Proof. exact sign_out_ticket_delete_failure. Qed.
Print Assumptions c11_error.

Theorem c11_ticket_cookie_deleted : forall mac cfg host cs now del_ok target,
  let '(o, _) := sign_out_ticket_store mac cfg host cs now del_ok target in
  let cookies := match o with SoRedirect _ c => c | SoError c => c end in
  exists d, In d cookies /\ sc_name d = c_name cfg /\ sc_maxage d < 0 /\ sc_path d = c_path cfg /\
            sc_domain d = select_domain host (c_domains cfg).
Proof. exact sign_out_ticket_deletes_cookie. Qed.
Print Assumptions c11_ticket_cookie_deleted.

(* after the delete, over every later history of store operations that does not write that key
   again, the key stays absent ... *)
Theorem c11_stays_deleted : forall later st k,
  forallb (fun op => negb (writes_key k op)) later = true ->
  kv_get (fold_left apply_op later (apply_op st (OpDel k))) k = None.
Proof. exact deleted_stays_deleted. Qed.
Print Assumptions c11_stays_deleted.

(* ... and every cookie resolving to that ticket (any pre-sign-out cookie) loads no session *)
Theorem c11_replay : forall mac (session : Type) (unseal : str -> str -> option session) st k cfg cs now,
  kv_get st k = None ->
  fst (manager_load mac session unseal (kv_get st) cfg cs now) = Some k ->
  snd (manager_load mac session unseal (kv_get st) cfg cs now) = None.
Proof. exact replay_after_delete. Qed.
Print Assumptions c11_replay.

(* ---- a sign-out racing a request that refreshes the same session (Model/SignOutRace.v) ---- *)
From V.Model Require SignOutRace.
From V.Proofs Require SignOutRaceProofs.

(* with a provider that answers every refresh call: for EVERY interleaving of the two requests' store,
   lock and provider operations (any schedule, any length), once both are finished the stored session
   is gone (finite reachable state set, computed and shown closed under both requests' moves) *)
Theorem c11_signout_race_reliable_provider : forall sched,
  SignOutRace.both_done (SignOutRace.run SignOutRace.reliable SignOutRace.init sched) = true ->
  SignOutRace.store (SignOutRace.run SignOutRace.reliable SignOutRace.init sched) = None.
Proof. exact SignOutRaceProofs.signout_race_reliable_provider. Qed.
Print Assumptions c11_signout_race_reliable_provider.

(* without that proviso the clause is false of the faithful model and of the code (known finding F21):
   the provider fails the sign-out request's own refresh call and answers the next one; the other
   request's save lands after the delete and the session is stored again although sign-out succeeded *)
Theorem c11_signout_race_refuted :
  exists answers sched,
    SignOutRace.both_done (SignOutRace.run answers SignOutRace.init sched) = true /\
    SignOutRace.p_out (SignOutRace.run answers SignOutRace.init sched) = SignOutRace.PDone (SignOutRace.Served 0%nat) /\
    SignOutRace.store (SignOutRace.run answers SignOutRace.init sched) = Some 1%nat.
Proof. exact SignOutRaceProofs.signout_race_refuted. Qed.
Print Assumptions c11_signout_race_refuted.

(* the same with a provider that always answers, when the session's age crosses the refresh period
   between the two requests' evaluations of it *)
Theorem c11_signout_race_refuted_at_boundary :
  exists sched,
    SignOutRace.both_done (SignOutRace.run SignOutRace.reliable SignOutRace.init_boundary sched) = true /\
    SignOutRace.p_out (SignOutRace.run SignOutRace.reliable SignOutRace.init_boundary sched) = SignOutRace.PDone (SignOutRace.Served 0%nat) /\
    SignOutRace.store (SignOutRace.run SignOutRace.reliable SignOutRace.init_boundary sched) = Some 1%nat.
Proof. exact SignOutRaceProofs.signout_race_refuted_at_boundary. Qed.
Print Assumptions c11_signout_race_refuted_at_boundary.

(* ---- the store client's word is the store's ---- *)
From V.Lib Require Import Bytes.
From V.Gen Require Wiring.

(* Every method of the two Redis client wrappers REGENERATED from pkg/sessions/redis/client.go on this run hands the
   call through in one return statement: the error Manager.Clear sees (and SignOut turns into the error page) is the
   error the store reported, for the single-node and the cluster client alike.  What the sign-out and store-fault
   models assume about an operation's error. *)
Theorem c11_store_client_passes_errors :
  Wiring.redis_client_methods =
    [s "*client.Get: return c.Client.Get(ctx, key).Bytes()";
     s "*client.Set: return c.Client.Set(ctx, key, value, expiration).Err()";
     s "*client.Del: return c.Client.Del(ctx, key).Err()";
     s "*client.Lock: return NewLock(c.Client, key)";
     s "*client.Ping: return c.Client.Ping(ctx).Err()";
     s "*clusterClient.Get: return c.ClusterClient.Get(ctx, key).Bytes()";
     s "*clusterClient.Set: return c.ClusterClient.Set(ctx, key, value, expiration).Err()";
     s "*clusterClient.Del: return c.ClusterClient.Del(ctx, key).Err()";
     s "*clusterClient.Lock: return NewLock(c.ClusterClient, key)";
     s "*clusterClient.Ping: return c.ClusterClient.Ping(ctx).Err()"].
Proof. vm_compute. reflexivity. Qed.
Print Assumptions c11_store_client_passes_errors.
