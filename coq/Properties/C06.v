(* C06 - redirects derived from request data never leave the allowed origins.
   Only statements and `exact`; the lemmas live in Proofs/. *)
From V.Lib Require Import Bytes.
From V.Gen Require Import Consts.
From V.Model Require Import Authz Redirect GoPath.
From V.Proofs Require Import RedirectProofs GoPathProofs.
Open Scope N_scope.

(* the scanner in Model/Redirect.v is written for exactly this literal (regenerated from source) *)
Theorem c06_regex_literal :
  invalid_redirect_regex = [91; 47; 92; 92; 93; 40; 63; 58; 91; 92; 115; 92; 118; 93; 42; 124; 92; 46; 123; 49; 44; 50; 125; 41; 91; 47; 92; 92; 93].
Proof. exact regex_literal_pinned. Qed.
Print Assumptions c06_regex_literal.

(* For EVERY byte string: accepted by the relative-path rule => under browser URL-parsing rules
   (TAB/LF/CR removed, "/" or "\" after the first "/" starts an authority) it is a path on the host
   the request was made to. *)
Theorem c06_relative : forall r, is_valid_relative r = true -> browser_same_host r = true.
Proof. exact valid_relative_same_host. Qed.
Print Assumptions c06_relative.

(* ... and so does what the browser actually receives: http.Redirect rewrites a target without scheme
   and host (path.Clean on the part before '?', trailing slash kept, bytes >= 0x80 escaped) before it
   sets the Location header.  For EVERY accepted relative target and either verdict of net/url.Parse,
   the header still reads as a path on the current host. *)
Theorem c06_location_header : forall parse_ok r,
  is_valid_relative r = true -> browser_same_host (location_header parse_ok r) = true.
Proof. exact redirect_location_same_host. Qed.
Print Assumptions c06_location_header.

(* the rewriting is not the identity on accepted targets: "/a/b/..?q=/.." is accepted and sent as "/a?q=/.." *)
Example c06_location_header_nonvacuous :
  is_valid_relative [47;97;47;98;47;46;46;63;113;61;47;46;46] = true /\
  location_header true [47;97;47;98;47;46;46;63;113;61;47;46;46] = [47;97;63;113;61;47;46;46].
Proof. split; vm_compute; reflexivity. Qed.

(* an accepted target is non-empty and either relative (previous theorem) or an http(s) URL that
   net/url parses and whose Hostname()/Port() satisfy the whitelist rules *)
Theorem c06_accepted_cases : forall url_host_port wl r,
  is_valid_redirect url_host_port wl r = true ->
  r <> [] /\
  (is_valid_relative r = true \/
   ((prefixb http_pfx r = true \/ prefixb https_pfx r = true) /\
    exists h p, url_host_port r = Some (h, p) /\ is_endpoint_allowed h p wl = true)).
Proof. exact valid_redirect_cases. Qed.
Print Assumptions c06_accepted_cases.

Theorem c06_empty_whitelist : forall url_host_port r,
  is_valid_redirect url_host_port [] r = true -> is_valid_relative r = true.
Proof. exact empty_whitelist_only_relative. Qed.
Print Assumptions c06_empty_whitelist.

(* whatever the request carries (rd, X-Auth-Request-Redirect, X-Forwarded-*, request target) the
   director returns "/" or a target that passes validation; the callback re-validates the state's
   redirect the same way *)
Theorem c06_chain : forall url_host_port pp wl rq,
  get_redirect url_host_port pp wl rq = [47] \/
  is_valid_redirect url_host_port wl (get_redirect url_host_port pp wl rq) = true.
Proof. exact get_redirect_valid. Qed.
Print Assumptions c06_chain.

Theorem c06_callback : forall url_host_port wl r,
  callback_redirect url_host_port wl r = [47] \/
  is_valid_redirect url_host_port wl (callback_redirect url_host_port wl r) = true.
Proof. exact callback_redirect_valid. Qed.
Print Assumptions c06_callback.

(* a plain same-site path requested with rd is where the user lands, byte for byte *)
Theorem c06_identity : forall url_host_port pp wl rq,
  is_valid_relative (q_rd rq) = true -> get_redirect url_host_port pp wl rq = q_rd rq.
Proof. exact get_redirect_identity. Qed.
Print Assumptions c06_identity.
