(* C19 - no request can crash request handling.
   Only statements and `exact` / computation on the regenerated inventory. *)
From V.Lib Require Import Bytes.
From V.Gen Require Import Consts Guards PanicSites.
From V.Proofs Require Import PanicSitesExpected PanicGuards.
From Coq Require Import String List.
Import ListNotations.
Open Scope Z_scope.

(* the inventory of panic-capable operations REGENERATED from the request-path packages on this run
   is exactly the reviewed list, and no entry of that list is classified unguarded: a new slice,
   constant index, unchecked assertion, panic call or MustCompile re-opens this obligation *)
Theorem c19_sites_pinned : map fst expected_sites = panic_sites.
Proof. vm_compute. reflexivity. Qed.
Print Assumptions c19_sites_pinned.

Theorem c19_no_unguarded_site : forallb (fun e => negb (is_unguarded (snd e))) expected_sites = true.
Proof. vm_compute. reflexivity. Qed.
Print Assumptions c19_no_unguarded_site.

(* the guards the source has NOW (operator and constant regenerated) rule the panic out, for every
   input: indexing after the length checks ... *)
Theorem c19_allowed_email_domains : forall parts : list str, guarded_index guard_allowed_email_domains parts 1 <> None.
Proof. exact allowed_email_domains_safe. Qed.
Print Assumptions c19_allowed_email_domains.
Theorem c19_decode_state : forall (parts : list str) j, 0 <= j < 2 -> guarded_index guard_decode_state parts j <> None.
Proof. exact decode_state_safe. Qed.
Print Assumptions c19_decode_state.
Theorem c19_validate_parts : forall (parts : list str) j, 0 <= j < 3 -> guarded_index guard_validate_parts parts j <> None.
Proof. exact validate_parts_safe. Qed.
Print Assumptions c19_validate_parts.
Theorem c19_split_auth_header : forall (parts : list str) j, 0 <= j < 2 -> guarded_index guard_split_auth_header parts j <> None.
Proof. exact split_auth_header_safe. Qed.
Print Assumptions c19_split_auth_header.
Theorem c19_basic_credentials : forall (parts : list str) j, 0 <= j < 2 -> guarded_index guard_basic_credentials parts j <> None.
Proof. exact basic_credentials_safe. Qed.
Print Assumptions c19_basic_credentials.
Theorem c19_parse_jwt : forall parts : list str, guarded_index guard_parse_jwt parts 1 <> None.
Proof. exact parse_jwt_safe. Qed.
Print Assumptions c19_parse_jwt.

(* ... the provider decoders repaired after the panic-site inventory was widened (fixes F16, F19, F18): the guard is
   regenerated from the source on every run, so a revert re-opens the obligation *)
Theorem c19_google_id_token : forall parts : list str, guarded_index guard_google_id_token parts 1 <> None.
Proof. exact google_id_token_safe. Qed.
Print Assumptions c19_google_id_token.
Theorem c19_logingov_keys : forall keys : list str, guarded_index guard_logingov_keys keys 0 <> None.
Proof. exact logingov_keys_safe. Qed.
Print Assumptions c19_logingov_keys.
Theorem c19_azure_other_mails : forall mails : list str, guarded_index_within guard_azure_other_mails mails 0 <> None.
Proof. exact azure_other_mails_safe. Qed.
Print Assumptions c19_azure_other_mails.

(* ... the state substring and the cipher-text splits *)
Theorem c19_state_substring : forall state, state_substring guard_state_substring state <> None.
Proof. exact state_substring_safe. Qed.
Print Assumptions c19_state_substring.
Theorem c19_cfb_decrypt : forall ct, decrypt_split guard_cfb_decrypt ct <> None.
Proof. exact cfb_decrypt_safe. Qed.
Print Assumptions c19_cfb_decrypt.
Theorem c19_gcm_decrypt : forall ct, decrypt_split guard_gcm_decrypt ct <> None.
Proof. exact gcm_decrypt_safe. Qed.
Print Assumptions c19_gcm_decrypt.
