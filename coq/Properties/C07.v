(* C07 - upstreams see identity headers only as derived from the authenticated session.
   Only statements and `exact`; the lemmas live in Proofs/. *)
From V.Lib Require Import Bytes Base64.
From V.Model Require Import Headers.
From V.Proofs Require Import HeadersProofs.
Open Scope N_scope.

(* For every client header map, every optional session, every header configuration and every
   canonical name: what the upstream receives under that name is the client's values only when no
   configured entry strips the name, followed by the values derived from the session / configured
   secrets in configuration order, comma-joined when there are several. *)
Theorem c07_request : forall so cfgs h k,
  hget k (request_headers so cfgs h) =
  flat_values k ((if stripped cfgs k then [] else hget k h) ++ derived so cfgs k).
Proof. exact request_headers_spec. Qed.
Print Assumptions c07_request.

(* hence nothing the client sent under a stripped name, in any spelling or multiplicity, matters *)
Theorem c07_client_values_ignored : forall so cfgs h h' k,
  stripped cfgs k = true ->
  hget k (request_headers so cfgs h) = hget k (request_headers so cfgs h').
Proof. exact request_headers_independent. Qed.
Print Assumptions c07_client_values_ignored.

(* no session (bypassed request), claim sources only: nothing is injected *)
Theorem c07_bypass : forall cfgs k,
  (forall e v, In e cfgs -> In v (h_values e) -> exists c p b, v = ClaimV c p b) ->
  derived None cfgs k = [].
Proof. exact derived_none_claims. Qed.
Print Assumptions c07_bypass.

Theorem c07_empty_claim : forall so claim prefix basic,
  Forall (fun c => c = []) (get_claim so claim) -> values_of so (ClaimV claim prefix basic) = [].
Proof. exact values_of_empty_claim. Qed.
Print Assumptions c07_empty_claim.

(* the auth-only response headers *)
Theorem c07_response : forall so cfgs h k,
  hget k (response_headers so cfgs h) = flat_values k (hget k h ++ derived so cfgs k).
Proof. exact response_headers_spec. Qed.
Print Assumptions c07_response.

(* ---- the legacy flags (Model/LegacyHeaders.v transcribes LegacyHeaders.getRequestHeaders / getResponseHeaders;
   compared with the real conversion for all 2 x 512 flag combinations on every run).  The request list carries
   the basic Authorization entry exactly when pass-basic-auth is set with a password and the bearer one exactly
   when pass-authorization-header is set; the response list likewise for set-basic-auth / set-authorization-header;
   client values are preserved under every configured request name iff skip-auth-strip-headers is off. *)
From V.Model Require Import LegacyHeaders.
From V.Proofs Require Import LegacyHeadersProofs.
From Coq Require Import String.

Theorem c07_legacy_request_authorization : forall l,
  map h_values (filter is_authorization (legacy_request_headers l)) =
  (if l_pass_basic_auth l && negb (match l_basic_auth_password l with [] => true | _ => false end)
   then [[ClaimV (if l_prefer_email_to_user l then s "email" else s "user") (s "Basic ") (Some (l_basic_auth_password l))]] else [])
  ++ (if l_pass_authorization l then [[ClaimV (s "id_token") (s "Bearer ") None]] else []).
Proof. exact legacy_request_authorization. Qed.
Print Assumptions c07_legacy_request_authorization.

Theorem c07_legacy_response_authorization : forall l,
  map h_values (filter is_authorization (legacy_response_headers l)) =
  (if l_set_basic_auth l
   then [[ClaimV (if l_prefer_email_to_user l then s "email" else s "user") (s "Basic ") (Some (l_basic_auth_password l))]] else [])
  ++ (if l_set_authorization l then [[ClaimV (s "id_token") (s "Bearer ") None]] else []).
Proof. exact legacy_response_authorization. Qed.
Print Assumptions c07_legacy_response_authorization.

Theorem c07_legacy_preserve_uniform : forall l,
  Forall (fun h => h_preserve h = negb (l_skip_auth_strip_headers l)) (legacy_request_headers l).
Proof. exact legacy_preserve_uniform. Qed.
Print Assumptions c07_legacy_preserve_uniform.

(* ---- nothing else writes request or response headers ---- *)
From V.Gen Require Surface.
From V.Proofs Require SurfaceExpected.

(* the inventory REGENERATED on this run from all non-test sources outside the provider clients - every
   Set / Add / Del on a header map - is exactly the reviewed list: the injectors, the strip and flatten
   steps modelled above, the GAP-Auth copy of the authenticated user and fixed response headers.  A new
   writer re-opens this obligation. *)
Theorem c07_header_writes_pinned :
  map fst SurfaceExpected.expected_header_surface = Surface.header_surface.
Proof. vm_compute. reflexivity. Qed.
Print Assumptions c07_header_writes_pinned.

Theorem c07_header_writes_reviewed :
  forallb (fun e => SurfaceExpected.header_reviewed (snd e)) SurfaceExpected.expected_header_surface = true.
Proof. vm_compute. reflexivity. Qed.
Print Assumptions c07_header_writes_reviewed.

(* ---- how the legacy header flags reach the conversion ---- *)
From V.Gen Require Wiring.

(* the tags binding each legacy header option to its flag and configuration key, REGENERATED from pkg/apis/options on
   this run, are regular: every option reads its own flag (see c18_option_tags_regular) *)
Theorem c07_option_tags_regular :
  Wiring.option_tags_irregular = [] /\ Wiring.option_flags_unregistered = [] /\ Wiring.option_flags_untagged = [].
Proof. repeat split; vm_compute; reflexivity. Qed.
Print Assumptions c07_option_tags_regular.
