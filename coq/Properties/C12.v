(* C12 - stale sessions are refreshed or re-validated before use, once per session.
   Only statements and `exact`; the lemmas live in Proofs/. *)
From Coq Require Import List Arith Bool Lia ZArith.
Import ListNotations.
From V.Gen Require Import Consts.
From V.Model Require Import Refresh.
From V.Proofs Require Import RefreshProofs.

(* For ANY number of concurrent requests sharing the stale session and ANY interleaving of their
   store, lock and identity-provider operations (every state reachable by `step`; the lock-expiry
   environment step excluded, as in the property's proviso): the provider observes at most one
   refresh and no refresh with a consumed token; every finished request was served with the
   refreshed session (version 1), and then exactly one refresh has happened and the store holds
   the refreshed session. *)
Theorem c12_once : forall s,
  reachable s ->
  succ s <= 1 /\ reuse s = 0 /\
  (forall t r, pcs s t = PDone r -> r = Served 1 /\ succ s = 1 /\ store s = Some 1).
Proof. exact once_per_epoch. Qed.
Print Assumptions c12_once.

(* a stale session is never what a request is served with *)
Theorem c12_never_stale : forall s t v, reachable s -> pcs s t = PDone (Served v) -> fresh v = true.
Proof. exact never_stale. Qed.
Print Assumptions c12_never_stale.

(* every schedule executed by `run` (the function the correspondence runs) stays reachable *)
Theorem c12_run_reachable : forall sched s, reachable s -> reachable (run s sched).
Proof. exact run_reachable. Qed.
Print Assumptions c12_run_reachable.

(* "provided the provider answers within the refresh lock's duration": a request waiting for the lock
   polls for at least as long as the lock can be held, so it never gives up on a refresh that
   completes inside the lock's duration (constants regenerated from the source; the driver runs a
   provider that answers just inside the regenerated lock duration) *)
Theorem c12_lock_constants :
  (0 < refresh_retry_period_ns < refresh_lock_duration_ns)%Z /\
  (refresh_lock_duration_ns <= refresh_obtain_timeout_ns)%Z.
Proof. unfold refresh_retry_period_ns, refresh_lock_duration_ns, refresh_obtain_timeout_ns. lia. Qed.
Print Assumptions c12_lock_constants.

(* one request: a stale session is used only after a successful refresh or a successful
   re-validation in this request; otherwise unauthenticated and the cookie cleared *)
Theorem c12_seq_never_stale : forall stale has_rt refresh_ok valid_old valid_new o called cleared,
  seq_refresh stale has_rt refresh_ok valid_old valid_new = (o, called, cleared) ->
  stale = true ->
  (o = SeqServedNew /\ has_rt = true /\ refresh_ok = true /\ valid_new = true /\ cleared = false) \/
  (o = SeqServedOld /\ valid_old = true /\ cleared = false) \/
  (o = SeqUnauth /\ cleared = true).
Proof. exact seq_never_stale. Qed.
Print Assumptions c12_seq_never_stale.

(* "After a refresh ... later requests carry the new tokens", over histories: against a provider whose
   refresh tokens are single-use, a chain of refreshes of ANY length never presents a consumed token
   and ends with the tokens of the last generation - whichever of the responses carry an ID token
   (Model/RefreshChain.v transcribes what redeemRefreshToken keeps of a response). *)
From V.Model Require Import RefreshChain.
From V.Proofs Require Import RefreshChainProofs.

Theorem c12_refresh_chain : forall flags cur s,
  t_refresh s = cur ->
  exists s', chain_run (cur, s) flags = Some (cur + length flags, s') /\
             t_refresh s' = cur + length flags /\
             (flags <> [] -> t_access s' = cur + length flags).
Proof. exact chain_never_presents_consumed_token. Qed.
Print Assumptions c12_refresh_chain.

(* ---- providers without refresh support: the re-stamped session is written before it is validated ---- *)
From V.Model Require StampRace.
From V.Proofs Require StampRaceProofs.

(* the clause "never honoured without first being refreshed with, or re-validated by, the identity
   provider" is false of the faithful model and of the code under concurrency (known finding F22):
   a second request that loads the session between the write and the removal is served *)
Theorem c12_write_before_validate_refuted :
  exists sched, StampRace.is_served (StampRace.p1 (StampRace.run false StampRace.init sched)) = true.
Proof. exact StampRaceProofs.stamp_race_refuted. Qed.
Print Assumptions c12_write_before_validate_refuted.

(* the same transition system with validation before the write: for every interleaving nobody is served *)
Theorem c12_validate_before_write_safe : forall sched,
  StampRace.someone_served (StampRace.run true StampRace.init sched) = false.
Proof. exact StampRaceProofs.stamp_race_validate_first. Qed.
Print Assumptions c12_validate_before_write_safe.

(* ---- after a refresh the session carries the new tokens AND is usable ---- *)
From V.Lib Require Import Bytes.
From V.Model Require Lifetime.
From V.Proofs Require LifetimeProofs.
From V.Gen Require Wiring.

(* a provider that is told a token lifetime d > 0 and re-stamps the session before applying it leaves a session that
   is not expired at the time of the refresh, whatever its previous age; the lifetime counts from the refresh *)
Theorem c12_refreshed_session_usable : forall created now d, (0 < d)%Z ->
  Lifetime.usable_after_refresh true created now d = true /\ (Lifetime.expiry_after_refresh true created now d - now = d)%Z.
Proof. intros created now d H. split; [exact (LifetimeProofs.refreshed_session_usable created now d H) | exact (LifetimeProofs.refreshed_expiry_is_lifetime created now d)]. Qed.
Print Assumptions c12_refreshed_session_usable.

(* the same call without the re-stamp: any session at least as old as the new lifetime is expired by its own refresh *)
Theorem c12_unstamped_refresh_expired : forall created now d, (created + d <= now)%Z ->
  Lifetime.usable_after_refresh false created now d = false.
Proof. exact LifetimeProofs.unstamped_refresh_expired. Qed.
Print Assumptions c12_unstamped_refresh_expired.

(* every call of ExpiresIn REGENERATED from the providers and the proxy on this run comes straight after CreatedAtNow on
   the same session - or is the login-time default of redeemCode, which runs after `if s.CreatedAt == nil { CreatedAtNow }`
   on a session the provider has just created *)
Theorem c12_expires_in_sites_pinned :
  Wiring.expires_in_sites =
    [s "oauthproxy.go|redeemCode|<first statement of its block>";
     s "providers/google.go|Redeem|restamped";
     s "providers/google.go|redeemRefreshToken|restamped";
     s "providers/logingov.go|Redeem|restamped"].
Proof. vm_compute. reflexivity. Qed.
Print Assumptions c12_expires_in_sites_pinned.
