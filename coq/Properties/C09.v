(* C09 - sessions are never honoured past the configured lifetime.
   Only statements and `exact`; the lemmas live in Proofs/. *)
From V.Lib Require Import Bytes Base64.
From V.Gen Require Import Consts.
From V.Lib Require Import NetAddr.
From V.Model Require Import Signed Cookies CookieStore Ticket.
From V.Proofs Require Import SignedProofs CookiesProofs CookieStoreProofs.
Open Scope Z_scope.

(* For every MAC function, cookie name, presented cookie string, clock reading and non-zero
   lifetime: acceptance implies  now - expire < ts*10^9 < now + 5 min  (skew_ns is regenerated
   from the source's `time.Minute*5`). *)
Theorem c09_window : forall (mac : str -> str) name c now e v t,
  e <> 0 -> validate mac name c now e = Some (v, t) ->
  now - e < t * 1000000000 /\ t * 1000000000 < now + skew_ns.
Proof. exact validate_window. Qed.
Print Assumptions c09_window.

Theorem c09_five_minutes : skew_ns = 5 * 60 * 1000000000.
Proof. reflexivity. Qed.
Print Assumptions c09_five_minutes.

Theorem c09_rejected_after_lifetime : forall (mac : str -> str) name c now e,
  e <> 0 -> forall v t, validate mac name c now e = Some (v, t) -> now - t * 1000000000 < e.
Proof. exact validate_expired. Qed.
Print Assumptions c09_rejected_after_lifetime.

Theorem c09_rejected_if_future : forall (mac : str -> str) name c now e,
  e <> 0 -> forall v t, validate mac name c now e = Some (v, t) -> t * 1000000000 - now < skew_ns.
Proof. exact validate_future. Qed.
Print Assumptions c09_rejected_if_future.

(* the timestamp a store signs is the session's CreatedAt: issuing with created_s and validating
   inside the window returns exactly created_s, so the lifetime runs from issue / last refresh
   (a refresh sets CreatedAt := now before re-saving) *)
Theorem c09_issue_time : forall (mac : str -> str), (forall m, is_bytes (mac m)) ->
  forall name value t now e,
  is_bytes value -> ts_ok t = true -> in_window t now e = true ->
  validate mac name (signed_value mac name value t) now e = Some (value, t).
Proof. exact validate_signed_value. Qed.
Print Assumptions c09_issue_time.

(* Max-Age given to the browser = the configured lifetime in whole seconds, on every part of the
   session cookie; the server-side entry is written with the configured lifetime as TTL *)
Theorem c09_maxage : forall cfg host signed parts,
  make_session_cookie cfg host signed = Some parts ->
  Forall (fun p => sc_maxage p = max_age_of (c_expire_ns cfg)) parts.
Proof. exact session_cookie_max_age. Qed.
Print Assumptions c09_maxage.

Theorem c09_maxage_seconds : forall e, 0 < e -> max_age_of e = e / 1000000000.
Proof. exact max_age_is_lifetime. Qed.
Print Assumptions c09_maxage_seconds.

Theorem c09_store_ttl : forall cfg, manager_save_ttl cfg = c_expire_ns cfg.
Proof. reflexivity. Qed.
Print Assumptions c09_store_ttl.

(* ---- providers that cannot refresh (Model/Lifetime.v): the proxy re-stamps the credential every
   cookie-refresh, so the signed timestamp alone would never end the session.  With the expiry the
   login gives the session (redeemCode's fallback: login + cookie-expire when the provider tells
   none), whatever the sequence of requests and validation answers, no request later than
   login + cookie-expire + cookie-refresh is honoured. *)
From V.Model Require Import Lifetime.
From V.Proofs Require Import LifetimeProofs.

Theorem c09_nonrefreshing_total_lifetime : forall refresh expire t0 pc reqs,
  0 <= refresh -> 0 < expire ->
  (match pc with Some c => c <= t0 | None => True end) ->
  let s0 := redeem_fallbacks t0 expire pc None in
  forall pre t v rest s1 s2,
    reqs = pre ++ (t, v) :: rest ->
    run_nonrefreshing refresh expire s0 pre = Some s1 ->
    request_nonrefreshing refresh expire s1 t v = Some s2 ->
    t <= t0 + expire + refresh.
Proof. exact nonrefreshing_total_lifetime. Qed.
Print Assumptions c09_nonrefreshing_total_lifetime.

Theorem c09_redeem_fallbacks : forall now expire pc pe,
  l_created (redeem_fallbacks now expire pc pe) = match pc with Some c => c | None => now end /\
  l_expires (redeem_fallbacks now expire pc pe) = Some (match pe with Some e => e | None => now + expire end).
Proof. exact redeem_fallbacks_spec. Qed.
Print Assumptions c09_redeem_fallbacks.

(* ---- the server-side entry gets its lifetime in the SAME command that writes it ---- *)
From V.Lib Require Import Bytes.
From V.Gen Require Wiring.

(* Both Redis client wrappers, REGENERATED from pkg/sessions/redis/client.go on this run, store an entry with ONE Set call
   that carries the expiration (c09_store_ttl is about that argument): there is no window in which the entry exists without
   its lifetime, whatever happens to the connection afterwards. *)
Theorem c09_store_write_carries_lifetime :
  In (s "*client.Set: return c.Client.Set(ctx, key, value, expiration).Err()") Wiring.redis_client_methods /\
  In (s "*clusterClient.Set: return c.ClusterClient.Set(ctx, key, value, expiration).Err()") Wiring.redis_client_methods.
Proof. split; vm_compute; tauto. Qed.
Print Assumptions c09_store_write_carries_lifetime.
