(* C09 - sessions are never honoured past the configured lifetime.
   Only statements and `exact`; the lemmas live in Proofs/. *)
From V.Lib Require Import Bytes Base64.
From V.Gen Require Import Consts.
From V.Model Require Import Signed.
From V.Proofs Require Import SignedProofs.
Open Scope Z_scope.

(* For every MAC function, cookie name, presented cookie string, clock reading and non-zero
   lifetime: acceptance implies  now - expire < ts*10^9 < now + 5 min  (skew_ns is regenerated
   from the source's `time.Minute*5`). *)
Theorem c09_window : forall (mac : str -> str) name c now e v t,
  e <> 0 -> validate mac name c now e = Some (v, t) ->
  now - e < t * 1000000000 /\ t * 1000000000 < now + skew_ns.
Proof. exact validate_window. Qed.
Print Assumptions c09_window.

Theorem c09_five_minutes : skew_ns = 5 * 60 * 1000000000.
Proof. reflexivity. Qed.
Print Assumptions c09_five_minutes.

Theorem c09_rejected_after_lifetime : forall (mac : str -> str) name c now e,
  e <> 0 -> forall v t, validate mac name c now e = Some (v, t) -> now - t * 1000000000 < e.
Proof. exact validate_expired. Qed.
Print Assumptions c09_rejected_after_lifetime.

Theorem c09_rejected_if_future : forall (mac : str -> str) name c now e,
  e <> 0 -> forall v t, validate mac name c now e = Some (v, t) -> t * 1000000000 - now < skew_ns.
Proof. exact validate_future. Qed.
Print Assumptions c09_rejected_if_future.
