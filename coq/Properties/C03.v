(* C03 - a login completes only in the browser that started it (state <-> CSRF cookie).
   Only statements and `exact`; the lemmas live in Proofs/. *)
From V.Lib Require Import Bytes Base64.
From V.Gen Require Import Consts.
From V.Model Require Import Signed Csrf.
From V.Proofs Require Import SignedProofs CsrfProofs.
Open Scope Z_scope.

(* Soundness, for EVERY state string and EVERY cookie list (the adversary is unrestricted), every
   MAC, decryption and hash function: the callback gets past the state check only if the request
   carries, under the cookie name derived from the state, a cookie that passes signature and
   lifetime validation, decrypts to a CSRF record, and the hash of that record's state nonce equals
   the nonce part of the state parameter (and redemption succeeded). *)
Theorem c03_sound : forall mac dec hash cfg state cookies now redeem_ok c rd,
  callback_state mac dec hash cfg state cookies now redeem_ok = CbStateOK c rd ->
  exists nonce v raw t,
    decode_state state (k_encode_state cfg) = Some (nonce, rd) /\
    In (generate_cookie_name cfg nonce, v) cookies /\
    validate mac (generate_cookie_name cfg nonce) v now (k_expire_ns cfg) = Some (raw, t) /\
    dec raw = Some c /\
    hash_nonce hash (cs_state c) = nonce /\ redeem_ok = true.
Proof. exact callback_state_sound. Qed.
Print Assumptions c03_sound.

Theorem c03_no_cookie_no_session : forall mac dec hash cfg state now redeem_ok c rd,
  callback_state mac dec hash cfg state [] now redeem_ok <> CbStateOK c rd.
Proof. exact callback_no_cookie. Qed.
Print Assumptions c03_no_cookie_no_session.

(* Completeness: the callback that carries the unmodified state and the CSRF cookie of one and the
   same login succeeds, whatever other cookies (before or after it in the Cookie header: other
   outstanding logins of the browser, in any order of start and completion) are sent under other
   names.  Premises: SHA-256/base64 output is 43 bytes without ':' (hash_len, hash_no_colon);
   decryption inverts encryption; the timestamp is inside the validity window. *)
Theorem c03_complete : forall mac dec hash,
  (forall x, length (hash x) = 43%nat) -> (forall x, memb colon_b (hash x) = false) ->
  (forall x, is_bytes (hash x)) ->
  forall encr, (forall c, dec (encr c) = Some c) -> (forall c, is_bytes (encr c)) ->
  (forall m, is_bytes (mac m)) ->
  forall cfg c rd t now others before,
  cs_state c <> [] -> is_bytes rd ->
  ts_ok t = true -> in_window t now (k_expire_ns cfg) = true ->
  (forall n v, In (n, v) (before ++ others) -> n <> own_cookie_name hash cfg c) ->
  callback_state mac dec hash cfg (start_state hash cfg c rd)
                 (before ++ issued_cookie mac hash encr cfg c t :: others) now true = CbStateOK c rd.
Proof. exact start_then_callback. Qed.
Print Assumptions c03_complete.

(* state-substring length used for per-request cookie names is regenerated from csrfStateLength *)
Theorem c03_substring_len : state_sub_len = 8%nat.
Proof. reflexivity. Qed.
Print Assumptions c03_substring_len.
