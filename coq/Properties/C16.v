(* C16 - forwarding headers are ignored unless reverse-proxy mode is on.
   Only statements and `exact`; the lemmas live in Proofs/. *)
From V.Lib Require Import Bytes NetAddr.
From V.Model Require Import Authz Redirect Bypass Cookies.
From V.Proofs Require Import RedirectProofs BypassProofs.
Open Scope N_scope.

(* with reverse-proxy off the effective host, scheme and URI are the request's own, and the
   request never counts as forwarded, whatever X-Forwarded-Host/-Proto/-Uri say *)
Theorem c16_accessors : forall a,
  q_proxied a = false ->
  get_request_host a = q_host a /\ get_request_proto a = q_scheme a /\ get_request_uri a = q_uri a /\
  is_forwarded_request a = false.
Proof. exact request_accessors_not_proxied. Qed.
Print Assumptions c16_accessors.

(* 2-safety: two requests that differ only in the forwarding headers get the same redirect target *)
Theorem c16_redirect : forall url_host_port pp wl a b,
  q_proxied a = false -> same_but_forwarding a b ->
  get_redirect url_host_port pp wl a = get_redirect url_host_port pp wl b.
Proof. exact get_redirect_ignores_forwarding. Qed.
Print Assumptions c16_redirect.

(* ... and the same OAuth redirect URI *)
Theorem c16_oauth_redirect_uri : forall rel cu ch cp sec a b,
  q_proxied a = false -> same_but_forwarding a b ->
  oauth_redirect_uri rel cu ch cp sec a = oauth_redirect_uri rel cu ch cp sec b.
Proof. exact oauth_redirect_uri_ignores_forwarding. Qed.
Print Assumptions c16_oauth_redirect_uri.

(* ... the same skip-auth path (X-Forwarded-Uri not consulted) *)
Theorem c16_bypass_path : forall parse_uri_path rq,
  b_proxied rq = false ->
  request_path parse_uri_path rq =
    match parse_uri_path (b_request_uri rq) with Some p => p | None => cut_at_query_or_fragment (b_request_uri rq) end.
Proof. exact request_path_not_proxied. Qed.
Print Assumptions c16_bypass_path.

(* ... and the same trusted-IP decision: without a header parser only RemoteAddr counts; with one
   (reverse-proxy on) only the one configured header *)
Theorem c16_trusted_ip_off : forall parse_ip s rq rq',
  b_remote_addr rq = b_remote_addr rq' ->
  is_trusted_ip parse_ip s false rq = is_trusted_ip parse_ip s false rq'.
Proof. exact trusted_ip_remote_only. Qed.
Print Assumptions c16_trusted_ip_off.

Theorem c16_trusted_ip_on : forall parse_ip s rq rq',
  b_ip_header rq = b_ip_header rq' ->
  is_trusted_ip parse_ip s true rq = is_trusted_ip parse_ip s true rq'.
Proof. exact trusted_ip_header_only. Qed.
Print Assumptions c16_trusted_ip_on.

(* the cookie Domain is a function of the effective host only *)
Theorem c16_cookie_domain : forall cfg host name value exp,
  sc_domain (make_cookie cfg host name value exp) = select_domain host (c_domains cfg).
Proof. reflexivity. Qed.
Print Assumptions c16_cookie_domain.

(* ---- over the composition of Model/Compose.v (bypass rules + stored credential + handlers): with
   reverse-proxy mode off - the request is not marked proxied and the trusted-IP decision reads the
   peer address - two requests that differ only in what forwarding headers carry (the forwarded URI,
   the client-IP header) get the same answer and the same clearing decision. *)
From V.Model Require Import Signed Cookies CookieStore Compose.
From V.Proofs Require Import ComposeProofs.

Theorem c16_serve_request_ignores_forwarding :
  forall mac matches parse_uri_path parse_ip decode_session ep d r r',
  d_use_header d = false -> same_but_forwarding (r_b r) (r_b r') ->
  r_cookies r = r_cookies r' -> r_now r = r_now r' -> r_bearer r = r_bearer r' -> r_basic r = r_basic r' -> r_p r = r_p r' ->
  serve_request mac matches parse_uri_path parse_ip decode_session ep d r =
  serve_request mac matches parse_uri_path parse_ip decode_session ep d r'.
Proof. exact serve_request_ignores_forwarding. Qed.
Print Assumptions c16_serve_request_ignores_forwarding.

(* ---- the forwarding headers are read nowhere else ---- *)
From V.Gen Require Surface.
From V.Proofs Require SurfaceExpected.

(* the inventory REGENERATED on this run from all non-test sources - every mention of a forwarding or
   client-IP header name, of the constants naming them, of the client-IP parser and of the
   reverse-proxy flag - is exactly the reviewed list: a new reader re-opens this obligation *)
Theorem c16_forwarded_surface_pinned :
  map fst SurfaceExpected.expected_forwarded_surface = Surface.forwarded_surface.
Proof. vm_compute. reflexivity. Qed.
Print Assumptions c16_forwarded_surface_pinned.

Theorem c16_forwarded_surface_reviewed :
  forallb (fun e => SurfaceExpected.forward_reviewed (snd e)) SurfaceExpected.expected_forwarded_surface = true.
Proof. vm_compute. reflexivity. Qed.
Print Assumptions c16_forwarded_surface_reviewed.

(* the accessors of pkg/requests/util still have the shape the model of c16_accessors assumes
   (header value, replaced by the request's own value unless IsProxied and non-empty), there are
   three of them, and IsProxied is the scope's flag *)
Theorem c16_accessor_shapes :
  map (fun e => (fst (fst e), snd e)) Surface.accessor_shapes =
    [("GetRequestProto"%string, true); ("GetRequestHost"%string, true); ("GetRequestURI"%string, true)] /\
  Surface.is_proxied_reads_scope_flag = true.
Proof. split; vm_compute; reflexivity. Qed.
Print Assumptions c16_accessor_shapes.
