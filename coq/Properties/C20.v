(* C20 - credential and allow-list files reload atomically and race-free.
   Only statements and `exact` / computation on the regenerated programs. *)
From Coq Require Import List Arith Bool Lia.
Import ListNotations.
From V.Gen Require Import SyncProgs.
From V.Model Require Import Reload.
From V.Proofs Require Import ReloadProofs.

(* For ANY set of event programs that pass the static lock discipline, ANY number of goroutines
   each running one of them (possibly returning early) and ANY interleaving: no reachable state is
   a race state (two goroutines about to perform conflicting plain accesses to one location). *)
Theorem c20_drf : forall progs assign,
  (forall t, In (assign t) progs \/ assign t = []) -> all_well_locked progs = true ->
  forall s, reachable assign s -> ~ race_state s.
Proof. exact drf. Qed.
Print Assumptions c20_drf.

(* the programs REGENERATED from htpasswd.go and validator.go on this run pass the discipline
   (false, e.g., when Validate reads h.users without the read lock) *)
Theorem c20_generated_well_locked : all_well_locked sync_programs = true.
Proof. vm_compute. reflexivity. Qed.
Print Assumptions c20_generated_well_locked.

Theorem c20_generated_drf : forall assign,
  (forall t, In (assign t) sync_programs \/ assign t = []) ->
  forall s, reachable assign s -> ~ race_state s.
Proof. intros assign H. exact (drf sync_programs assign H c20_generated_well_locked). Qed.
Print Assumptions c20_generated_drf.

(* snapshot: a validation reads the shared pointer exactly once, and no method mutates a map that
   has been published - so every answer comes from one complete version *)
Theorem c20_snapshot :
  count_ev is_pointer_read prog_htpasswdMap_Validate = 1 /\
  count_ev is_pointer_read prog_UserMap_IsValid = 1 /\
  forallb (fun p => Nat.eqb (count_ev (fun e => match e with EMapWrite _ => true | _ => false end) p) 0) sync_programs = true.
Proof. vm_compute. repeat split. Qed.
Print Assumptions c20_snapshot.

(* a reload publishes exactly once, after all of its error exits, and does nothing but return
   afterwards: a reload that fails to parse performs no write *)
Theorem c20_failed_reload :
  returns_before_publish prog_htpasswdMap_loadHTPasswdFile = 3 /\
  count_ev is_publish prog_htpasswdMap_loadHTPasswdFile = 1 /\
  after_publish prog_htpasswdMap_loadHTPasswdFile = [EUnlock; EReturn] /\
  returns_before_publish prog_UserMap_LoadAuthenticatedEmailsFile = 1 /\
  count_ev is_publish prog_UserMap_LoadAuthenticatedEmailsFile = 1 /\
  after_publish prog_UserMap_LoadAuthenticatedEmailsFile = [EReturn].
Proof. vm_compute. repeat split. Qed.
Print Assumptions c20_failed_reload.

(* non-vacuity: the discipline rejects the unlocked read of the pinned tree before the fix *)
Example c20_unlocked_validate_rejected :
  all_well_locked [[ELock; EFieldWrite 0; EUnlock; EReturn]; [EFieldRead 0; EMapRead 0; EReturn]] = false.
Proof. vm_compute. reflexivity. Qed.

(* ---- "once a reload has completed every later validation reflects the new contents" needs the
   reloads themselves to be ordered (Model/ReloadOrder.v): the watcher runs the reload callback
   inside its single event loop, so a reload's read of the file and its publication are not
   interleaved with another reload's.  For every trace of file writes, reads and publications that
   such a loop can produce: once a reload that read the file after the last write has published,
   the published contents are the file's contents.  With a goroutine per reload this fails
   (the reload that read first may publish last). *)
From Coq Require Import ZArith.
From V.Model Require Import ReloadOrder.
From V.Proofs Require Import ReloadOrderProofs.

Theorem c20_serial_reloads_publish_final : forall s0 pre j post s',
  rrun s0 (pre ++ RRead j :: post) = Some s' ->
  forallb (fun e => negb (is_write e)) post = true ->
  In (RPublish j) post ->
  r_pub s' = r_file s'.
Proof. exact serial_reloads_publish_final. Qed.
Print Assumptions c20_serial_reloads_publish_final.

Theorem c20_overlapping_reloads_refuted :
  rrun_overlapping 0 0 [] [RWrite 1; RRead 1; RWrite 2; RRead 2; RPublish 2; RPublish 1] = (2%Z, 1%Z).
Proof. exact overlapping_reloads_publish_stale. Qed.
Print Assumptions c20_overlapping_reloads_refuted.

(* the premise, on the source as it is now: every call of the reload callback in
   pkg/watcher/watcher.go (regenerated) sits in the event loop, none in a goroutine of its own *)
Theorem c20_watcher_serial :
  watcher_action_calls <> [] /\ forallb (fun p => negb (snd p)) watcher_action_calls = true.
Proof. split; [discriminate|vm_compute; reflexivity]. Qed.
Print Assumptions c20_watcher_serial.

(* ---- a reload is never missed: the watch is re-armed BEFORE the file is read again ---- *)
From V.Lib Require Import Bytes.
From V.Model Require Watch.
From V.Proofs Require WatchProofs.
From V.Gen Require Wiring.

(* For EVERY sequence of in-place writes and replacements of the file and every placement of the event loop's steps
   between them: with the order of the code (re-arm the watch, then reload) a loop that has come to rest - nothing
   queued, no handler running - has loaded the file's current contents and is watching it. *)
Theorem c20_rearm_then_reload_safe : forall evs,
  Watch.quiescent (Watch.run Watch.RearmThenReload evs) = true ->
  Watch.fresh (Watch.run Watch.RearmThenReload evs) = true /\ Watch.watched (Watch.run Watch.RearmThenReload evs) = true.
Proof. exact WatchProofs.rearm_then_reload_safe. Qed.
Print Assumptions c20_rearm_then_reload_safe.

(* the two neighbouring orders lose an update for good: reloading before the re-arm (a write between the two is never
   seen), and not re-arming (the second replacement is never seen) *)
Theorem c20_reload_then_rearm_refuted :
  exists evs, Watch.quiescent (Watch.run Watch.ReloadThenRearm evs) = true /\ Watch.fresh (Watch.run Watch.ReloadThenRearm evs) = false.
Proof. exact WatchProofs.reload_then_rearm_refuted. Qed.
Print Assumptions c20_reload_then_rearm_refuted.

Theorem c20_reload_only_refuted :
  exists evs, Watch.quiescent (Watch.run Watch.ReloadOnly evs) = true /\ Watch.fresh (Watch.run Watch.ReloadOnly evs) = false.
Proof. exact WatchProofs.reload_only_refuted. Qed.
Print Assumptions c20_reload_only_refuted.

(* the Remove case of filterEvent REGENERATED from pkg/watcher/watcher.go on this run has the proved order: wait for the
   file and re-arm (WaitForReplacement returns only after watcher.Add succeeded), then run the reload callback *)
Theorem c20_watcher_remove_branch_pinned :
  Wiring.watcher_remove_branch = [s "event.Op&fsnotify.Remove != 0"; s "WaitForReplacement(filename, event.Op, watcher)"; s "action()"] /\
  Wiring.watcher_write_branch = [s "event.Op&(fsnotify.Create|fsnotify.Write) != 0"; s "action()"] /\
  Wiring.wait_for_replacement_rearms = true.
Proof. repeat split; vm_compute; reflexivity. Qed.
Print Assumptions c20_watcher_remove_branch_pinned.

(* the event loop REGENERATED from WatchFileForUpdates on this run: only the done channel ends it; an event is handed to
   filterEvent; an error the watcher reports (a dropped event, a failed read) is logged and the loop goes on - the
   model's Step is always available to a loop that has not been told to stop *)
Theorem c20_watcher_loop_pinned :
  Wiring.watcher_loop_cases =
    [s "<-done => log; return"; s "event := <-watcher.Events => filterEvent(watcher, event, filename, action)"; s "err = <-watcher.Errors => log"].
Proof. vm_compute. reflexivity. Qed.
Print Assumptions c20_watcher_loop_pinned.

(* Errors the watcher reports in between (any number, anywhere in the history): the loop of the code logs them and goes
   on, so the safety of its order is unaffected - at rest it has loaded the file's current contents, watches it, and has
   not stopped.  A loop that ends at the first reported error leaves every later change queued for ever. *)
Theorem c20_errors_ignored_safe : forall evs,
  Watch.quiescent (Watch.base (Watch.run_e false Watch.RearmThenReload evs)) = true ->
  Watch.fresh (Watch.base (Watch.run_e false Watch.RearmThenReload evs)) = true /\
  Watch.watched (Watch.base (Watch.run_e false Watch.RearmThenReload evs)) = true /\
  Watch.halted (Watch.run_e false Watch.RearmThenReload evs) = false.
Proof. exact WatchProofs.errors_ignored_safe. Qed.
Print Assumptions c20_errors_ignored_safe.

Theorem c20_stop_on_error_refuted : forall o,
  exists evs, Watch.pend_w (Watch.base (Watch.run_e true o evs)) = true /\ Watch.fresh (Watch.base (Watch.run_e true o evs)) = false /\
              forall k, Watch.run_e true o (evs ++ repeat (Watch.Ev Watch.Step) k) = Watch.run_e true o evs.
Proof. exact WatchProofs.stop_on_error_refuted. Qed.
Print Assumptions c20_stop_on_error_refuted.
