(* C18 - every cookie the proxy sets carries the configured protection attributes.
   Only statements and `exact`; the lemmas live in Proofs/. *)
From V.Lib Require Import Bytes NetAddr.
From V.Gen Require Import Consts.
From V.Model Require Import Signed Cookies CookieStore.
From V.Proofs Require Import CookiesProofs CookieStoreProofs.
From Coq Require Import Sorted.
Open Scope Z_scope.

(* every cookie built by the single constructor carries the configured Secure, HttpOnly, SameSite
   and Path, the selected Domain, and the name and value it was asked for *)
Theorem c18_attrs : forall cfg host name value exp,
  attrs_of_cfg cfg (make_cookie cfg host name value exp) /\
  sc_domain (make_cookie cfg host name value exp) = select_domain host (c_domains cfg) /\
  sc_name (make_cookie cfg host name value exp) = name /\
  sc_value (make_cookie cfg host name value exp) = value.
Proof. exact make_cookie_attrs. Qed.
Print Assumptions c18_attrs.

(* Domain: longest configured domain that is a suffix of the host without its port; the shortest
   configured one when none matches; none when none is configured - for every host string and
   every domain list sorted longest-first (as validation sorts it). *)
Theorem c18_domain : forall host ds,
  StronglySorted longer_first ds -> Forall (fun d => d <> []) ds ->
  let h := strip_port host in
  let d := select_domain host ds in
  (ds = [] -> d = []) /\
  ((exists x, In x ds /\ suffixb x h = true) ->
     In d ds /\ suffixb d h = true /\ forall d', In d' ds -> suffixb d' h = true -> (length d' <= length d)%nat) /\
  ((forall x, In x ds -> suffixb x h = false) -> ds <> [] ->
     In d ds /\ forall d', In d' ds -> (length d <= length d')%nat).
Proof. exact select_domain_spec. Qed.
Print Assumptions c18_domain.

Theorem c18_delete : forall cfg host name value exp,
  let c := make_cookie cfg host name value exp in
  let d := delete_cookie cfg host name in
  sc_name d = sc_name c /\ sc_path d = sc_path c /\ sc_domain d = sc_domain c /\ sc_maxage d < 0 /\
  attrs_of_cfg cfg d.
Proof. exact delete_cookie_matches. Qed.
Print Assumptions c18_delete.

(* all parts of a (split) session cookie carry the configured attributes, the selected domain and
   the configured Max-Age, and serialise to at most maxCookieLength <= 4096 bytes *)
Theorem c18_session_parts : forall cfg host signed parts,
  make_session_cookie cfg host signed = Some parts ->
  Forall (fun p => attrs_of_cfg cfg p /\ sc_domain p = select_domain host (c_domains cfg) /\
                   sc_maxage p = max_age_of (c_expire_ns cfg)) parts.
Proof. exact make_session_cookie_attrs. Qed.
Print Assumptions c18_session_parts.

Theorem c18_size : forall cfg host signed parts,
  make_session_cookie cfg host signed = Some parts ->
  Forall (fun p => cookie_len p <= 4096) parts.
Proof. exact session_parts_le_4096. Qed.
Print Assumptions c18_size.

(* ---- every cookie the proxy hands to a response comes out of that constructor ---- *)
From V.Gen Require Surface.
From V.Proofs Require SurfaceExpected.

(* the inventory REGENERATED on this run from all non-test sources - http.Cookie literals, calls of
   http.SetCookie, "Set-Cookie" header names, writes to cookie attribute fields, calls of the
   constructor - is exactly the reviewed list ... *)
Theorem c18_cookie_surface_pinned :
  map fst SurfaceExpected.expected_cookie_surface = Surface.cookie_surface.
Proof. vm_compute. reflexivity. Qed.
Print Assumptions c18_cookie_surface_pinned.

(* ... in which every entry is reviewed, and some emission site exists (the list is not vacuous) *)
Theorem c18_cookie_surface_reviewed :
  forallb (fun e => SurfaceExpected.cookie_reviewed (snd e)) SurfaceExpected.expected_cookie_surface = true /\
  existsb SurfaceExpected.is_emission SurfaceExpected.expected_cookie_surface = true.
Proof. split; vm_compute; reflexivity. Qed.
Print Assumptions c18_cookie_surface_reviewed.

(* ---- how the command line / environment reaches the cookie options ---- *)
From V.Gen Require Wiring.

(* The cookie flags REGENERATED from cookieFlagSet on this run: name, pflag constructor, default.  cookie-domain is a
   StringSlice (comma-separated and repeatable: every listed domain is one entry of the list select_domain ranges
   over), the protection attributes default to secure and http-only. *)
Theorem c18_cookie_flags_pinned :
  Wiring.cookie_flags =
    [s "cookie-name String ""_oauth2_proxy""";
     s "cookie-secret String """"";
     s "cookie-domain StringSlice []string{}";
     s "cookie-path String ""/""";
     s "cookie-expire Duration time.Duration(168)*time.Hour";
     s "cookie-refresh Duration time.Duration(0)";
     s "cookie-secure Bool true";
     s "cookie-httponly Bool true";
     s "cookie-samesite String """"";
     s "cookie-csrf-per-request Bool false";
     s "cookie-csrf-expire Duration time.Duration(15)*time.Minute"].
Proof. vm_compute. reflexivity. Qed.
Print Assumptions c18_cookie_flags_pinned.

(* Every option field bound to a command-line flag (158 on this tree) names, in its tag, a flag that is registered, and
   its configuration key is that flag's name with "_" for "-" (or its plural): REGENERATED from pkg/apis/options on this
   run.  The loader binds key, environment variable and flag through these tags, so a field tagged with a neighbour's
   flag would silently take that neighbour's command-line value (cookie-httponly following cookie-secure). *)
Theorem c18_option_tags_regular :
  Wiring.option_tags_irregular = [] /\ Wiring.option_flags_unregistered = [] /\ Wiring.option_flags_untagged = [].
Proof. repeat split; vm_compute; reflexivity. Qed.
Print Assumptions c18_option_tags_regular.

(* c18_domain assumes the configured domains sorted longest first.  The ONLY statement in the non-test sources that
   sorts or assigns a cookie-domain list, REGENERATED on this run, is validation's unconditional sort by decreasing
   length (it sorts the caller's slice in place): the list every request sees is the sorted one, and nothing reorders
   it afterwards. *)
Theorem c18_domains_sorted_once :
  Wiring.cookie_domains_writes =
    [s "pkg/validation/cookie.go|validateCookie|top-level|sort.Slice(o.Domains,func(i,jint)bool{returnlen(o.Domains[i])>len(o.Domains[j])})"].
Proof. vm_compute. reflexivity. Qed.
Print Assumptions c18_domains_sorted_once.
