(* C17 - authenticated traffic is proxied faithfully to the right upstream.
   Only statements and `exact`; the lemmas live in Proofs/. *)
From V.Lib Require Import Bytes.
From V.Model Require Import Upstream.
From V.Proofs Require Import UpstreamProofs.
From Coq Require Import Sorted Permutation.
Open Scope nat_scope.

(* For EVERY ordering the (unstable) sort may produce - any permutation of the configured upstreams
   in which no later element is `less` than an earlier one - and every path and pattern matcher:
   the first matching route is a matching upstream of greatest key, i.e. a matching rewrite rule of
   greatest pattern length if any rule matches, otherwise the matching plain upstream with the
   longest path. *)
Theorem c17_route : forall re_match cfg l p u,
  Permutation cfg l -> sorted l -> first_match re_match l p = Some u ->
  In u cfg /\ matches re_match p u = true /\
  forall v, In v cfg -> matches re_match p v = true -> key_le (key v) (key u).
Proof. exact route_best. Qed.
Print Assumptions c17_route.

Theorem c17_comparator : forall a b, less a b = true <-> key_lt (key b) (key a).
Proof. exact less_iff_key. Qed.
Print Assumptions c17_comparator.

Theorem c17_no_match : forall re_match l p,
  first_match re_match l p = None -> forall v, In v l -> matches re_match p v = false.
Proof. exact no_match_none. Qed.
Print Assumptions c17_no_match.

(* among plain upstreams the best match is unique up to the configured path *)
Theorem c17_plain_unique : forall re_match p u v,
  u_rewrite u = false -> u_rewrite v = false ->
  matches re_match p u = true -> matches re_match p v = true ->
  length (u_path u) = length (u_path v) ->
  suffixb [slash] (u_path u) = suffixb [slash] (u_path v) -> u_path u = u_path v.
Proof. exact plain_best_unique. Qed.
Print Assumptions c17_plain_unique.
