(* C17 - authenticated traffic is proxied faithfully to the right upstream.
   Only statements and `exact`; the lemmas live in Proofs/. *)
From V.Lib Require Import Bytes.
From V.Model Require Import Upstream.
From V.Proofs Require Import UpstreamProofs.
From Coq Require Import Sorted Permutation.
Open Scope nat_scope.

(* For EVERY ordering the (unstable) sort may produce - any permutation of the configured upstreams
   in which no later element is `less` than an earlier one - and every path and pattern matcher:
   the first matching route is a matching upstream of greatest key, i.e. a matching rewrite rule of
   greatest pattern length if any rule matches, otherwise the matching plain upstream with the
   longest path. *)
Theorem c17_route : forall re_match cfg l p u,
  Permutation cfg l -> sorted l -> first_match re_match l p = Some u ->
  In u cfg /\ matches re_match p u = true /\
  forall v, In v cfg -> matches re_match p v = true -> key_le (key v) (key u).
Proof. exact route_best. Qed.
Print Assumptions c17_route.

Theorem c17_comparator : forall a b, less a b = true <-> key_lt (key b) (key a).
Proof. exact less_iff_key. Qed.
Print Assumptions c17_comparator.

Theorem c17_no_match : forall re_match l p,
  first_match re_match l p = None -> forall v, In v l -> matches re_match p v = false.
Proof. exact no_match_none. Qed.
Print Assumptions c17_no_match.

(* among plain upstreams the best match is unique up to the configured path *)
Theorem c17_plain_unique : forall re_match p u v,
  u_rewrite u = false -> u_rewrite v = false ->
  matches re_match p u = true -> matches re_match p v = true ->
  length (u_path u) = length (u_path v) ->
  suffixb [slash] (u_path u) = suffixb [slash] (u_path v) -> u_path u = u_path v.
Proof. exact plain_best_unique. Qed.
Print Assumptions c17_plain_unique.

(* The query string: without a rewrite rule the upstream receives it exactly as sent; with a rule
   (whatever the regular-expression substitution `nu` produced and whatever the library makes of
   the rule's own query) it receives the original query verbatim, followed only by the rule's
   additions; the request is refused only when the rule's own query cannot be parsed. *)
Theorem c17_query_verbatim : forall reencode rewritten orig q,
  forwarded_query reencode rewritten orig = Some q ->
  prefixb orig q = true /\ (rewritten = None -> q = orig).
Proof. exact forwarded_query_verbatim. Qed.
Print Assumptions c17_query_verbatim.

Theorem c17_query_additions : forall reencode nu orig p aq rq,
  cut_question nu = Some (p, aq) -> reencode aq = Some rq ->
  forwarded_query reencode (Some nu) orig =
    Some (match orig, rq with [] , _ => rq | _, [] => orig | _, _ => orig ++ ampersand :: rq end).
Proof. exact forwarded_query_additions. Qed.
Print Assumptions c17_query_additions.

Theorem c17_query_no_additions : forall reencode nu orig,
  cut_question nu = None -> forwarded_query reencode (Some nu) orig = Some orig.
Proof. exact forwarded_query_no_additions. Qed.
Print Assumptions c17_query_no_additions.

Theorem c17_rewrite_refused_iff : forall reencode rewritten orig,
  forwarded_query reencode rewritten orig = None <->
  exists nu p aq, rewritten = Some nu /\ cut_question nu = Some (p, aq) /\ reencode aq = None.
Proof. exact forwarded_query_refused. Qed.
Print Assumptions c17_rewrite_refused_iff.

Theorem c17_rewritten_path_has_no_query : forall reencode orig nu p q,
  split_path_and_query reencode orig nu = Some (p, q) -> ~ In question p.
Proof. exact split_path_no_question. Qed.
Print Assumptions c17_rewritten_path_has_no_query.

(* non-vacuity: a rule that rewrites /articles/<id> to /article?id=<id>, on /articles/a1?b=2&a=%zz *)
From Coq Require Import String.
Example c17_query_example :
  forwarded_query (fun aq => Some aq) (Some (s "/article?id=a1"%string)) (s "b=2&a=%zz"%string)
  = Some (s "b=2&a=%zz&id=a1"%string).
Proof. reflexivity. Qed.

(* ---- the request line is passed on as received ---- *)
From V.Gen Require Surface.

(* the director REGENERATED from pkg/upstream/http.go on this run still has the shape the oracles rely
   on - the library's director first, then the outgoing URL made opaque and set to the request target
   as received (or as rewritePath left it), query fields cleared - and newReverseProxy installs it once, as does
   newWebSocketReverseProxy (upgrade requests take the second proxy: F23), both replacing the Host header under
   the same pass-host-header guard *)
Theorem c17_director_shape :
  Surface.director_passes_request_uri = true /\ Surface.director_installations = 1%nat /\
  Surface.ws_director_installations = 1%nat /\ Surface.host_header_guards = 2%nat.
Proof. repeat split; vm_compute; reflexivity. Qed.
Print Assumptions c17_director_shape.

(* ---- the comparator the theorems are about is the one in the source ---- *)
From V.Gen Require Comparator.

(* the comparator TRANSLATED on this run from the function literal sortByPathLongest hands to sort.Slice
   (tagless switch over which of the two upstreams has a rewrite target; boolean constants and
   comparisons of path lengths) computes the model's `less` on every pair of upstreams: c17_route and
   c17_comparator speak about the code's ordering, not about a transcription of it *)
Theorem c17_generated_comparator : forall a b, Comparator.gen_less a b = less a b.
Proof. intros a b. unfold Comparator.gen_less, less. destruct (u_rewrite a), (u_rewrite b); reflexivity. Qed.
Print Assumptions c17_generated_comparator.
