(* C08 - authorisation rules are enforced on every request, not only at login.
   Only statements and `exact`; the lemmas live in Proofs/. *)
From V.Lib Require Import Bytes.
From V.Model Require Import Authz.
From V.Proofs Require Import AuthzProofs.
Open Scope N_scope.

(* the e-mail validator, for every configuration and every e-mail string *)
Theorem c08_email_spec : forall domains file email,
  email_valid domains file email = true <->
  email <> [] /\
  (In [star] domains \/
   (exists d, In d domains /\ d <> [star] /\ domain_rule_matches (to_lower d) (to_lower email) = true) \/
   In (to_lower email) file).
Proof. exact email_valid_spec. Qed.
Print Assumptions c08_email_spec.

Theorem c08_groups_spec : forall allowed s,
  authorize allowed s = true <-> allowed = [] \/ exists g, In g (a_groups s) /\ In g allowed.
Proof. exact authorize_spec. Qed.
Print Assumptions c08_groups_spec.

(* every request: served with a session => not bypassed implies the session passes the rules in
   force for THIS request (validator and groups are parameters of each call, so a rule change
   between login and request is covered), and nothing was cleared *)
Theorem c08_served : forall bypass validator allowed scope s cleared,
  get_authenticated_session bypass validator allowed scope = (AuthOK (Some s), cleared) ->
  bypass = true \/
  (scope = Some s /\ (a_email s = [] \/ validator (a_email s) = true) /\ authorize allowed s = true /\ cleared = false).
Proof. exact served_implies_rules. Qed.
Print Assumptions c08_served.

Theorem c08_refused : forall validator allowed s,
  (a_email s <> [] /\ validator (a_email s) = false) \/ authorize allowed s = false ->
  get_authenticated_session false validator allowed (Some s) = (AccessDenied, true).
Proof. exact failing_session_refused. Qed.
Print Assumptions c08_refused.

(* auth-only endpoint: all three query constraints must hold *)
Theorem c08_auth_only : forall vg vd ve s,
  auth_only_authorize vg vd ve (Some s) = true <->
  check_allowed_groups vg s = true /\ check_allowed_email_domains vd s = true /\ check_allowed_emails ve s = true.
Proof. exact auth_only_authorize_spec. Qed.
Print Assumptions c08_auth_only.

Theorem c08_entities : forall values x,
  In x (extract_entities values) <-> x <> [] /\ exists v, In v values /\ In x (split_on comma v).
Proof. exact extract_entities_spec. Qed.
Print Assumptions c08_entities.

Theorem c08_groups_constraint : forall values s,
  check_allowed_groups values s = true <->
  extract_entities values = [] \/ exists g, In g (a_groups s) /\ In g (extract_entities values).
Proof. exact check_allowed_groups_spec. Qed.
Print Assumptions c08_groups_constraint.

Theorem c08_emails_constraint : forall values s,
  check_allowed_emails values s = true <->
  extract_entities values = [] \/ In (a_email s) (extract_entities values).
Proof. exact check_allowed_emails_spec. Qed.
Print Assumptions c08_emails_constraint.

(* ---- the same rules at login ---- *)
(* a login is admitted iff the validator accepts the session's e-mail and the provider's group rule holds *)
Theorem c08_login_rules : forall validator allowed s,
  login_admits validator allowed s = true <-> validator (a_email s) = true /\ authorize allowed s = true.
Proof. exact login_admits_rules. Qed.
Print Assumptions c08_login_rules.

(* what was admitted at login is served by a request under the same rules; conversely a served session that
   carries an e-mail would have been admitted at login: no rule is applied at one of the two places only *)
Theorem c08_admitted_then_served : forall validator allowed s,
  login_admits validator allowed s = true ->
  get_authenticated_session false validator allowed (Some s) = (AuthOK (Some s), false).
Proof. exact admitted_then_served. Qed.
Print Assumptions c08_admitted_then_served.

Theorem c08_served_then_admissible : forall validator allowed s c,
  a_email s <> [] ->
  get_authenticated_session false validator allowed (Some s) = (AuthOK (Some s), c) ->
  login_admits validator allowed s = true.
Proof. exact served_then_admissible. Qed.
Print Assumptions c08_served_then_admissible.

(* ---- where the auth-only constraints come from ---- *)
From V.Lib Require Import Bytes.
From V.Gen Require Wiring.

(* extractAllowedEntities REGENERATED on this run reads the constraint values from the URL's query and from nothing else
   (not the parsed form, which would merge a request body the caller controls): the `values` of c08_auth_only are the
   operator's *)
Theorem c08_constraints_from_query_only :
  Wiring.allowed_entities_source = [s "query := req.URL.Query()"; s "range query[key]"].
Proof. vm_compute. reflexivity. Qed.
Print Assumptions c08_constraints_from_query_only.
