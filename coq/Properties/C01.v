(* C01 - no upstream access or identity disclosure without a valid credential or bypass.
   Only statements and `exact` / computation on the regenerated route table. *)
From V.Lib Require Import Bytes.
From V.Gen Require Import Routes.
From V.Model Require Import Authz Proxy.
From V.Proofs Require Import ProxyProofs.
From Coq Require Import String List.
Import ListNotations.
Open Scope N_scope.

(* ONLY IF, for every endpoint, configuration, credential situation and request: the upstream is
   reached, 202 answered or a non-empty identity returned only under a bypass, or with a session a
   loader vouched for (verified bearer token, accepted basic credentials, valid stored session)
   that also passes the authorisation rules (and the auth-only query constraints). *)
Theorem c01_only_if : forall ep cfg bearer_on basic_on bypass validator allowed c rq o cleared,
  serve ep cfg bearer_on basic_on bypass validator allowed c rq = (o, cleared) -> discloses o = true ->
  bypass = true \/
  exists s, ((bearer_on = true /\ cr_bearer c = Some s) \/ (basic_on = true /\ cr_basic c = Some s) \/ cr_stored c = Some s) /\
            authorised validator allowed s /\
            (ep = EpAuthOnly -> auth_only_authorize (q_groups rq) (q_domains rq) (q_emails rq) (Some s) = true).
Proof. exact serve_only_if. Qed.
Print Assumptions c01_only_if.

(* OTHERWISE: sign-in page, redirect to the provider, or 401 - and nothing is disclosed *)
Theorem c01_otherwise : forall ep cfg bearer_on basic_on validator allowed c rq,
  (bearer_on = false \/ cr_bearer c = None) -> (basic_on = false \/ cr_basic c = None) -> cr_stored c = None ->
  let o := fst (serve ep cfg bearer_on basic_on false validator allowed c rq) in
  discloses o = false /\
  (o = PSignInPage \/ o = PRedirectToProvider \/ o = PUnauthorized \/ (o = PErrorPage /\ q_clear_fails rq = true)).
Proof. exact serve_otherwise. Qed.
Print Assumptions c01_otherwise.

(* the last disjunct is real: with the server-side store and an undecodable ticket cookie the
   answer is the 500 error page (known finding; nothing is disclosed) *)
Theorem c01_refusal_form_refuted :
  let rq := {| q_ajax := false; q_api := false; q_groups := []; q_domains := []; q_emails := []; q_clear_fails := true |} in
  fst (serve EpProxy {| p_skip_provider_button := false; p_force_json := false |} true true false (fun _ => true) []
             {| cr_bearer := None; cr_basic := None; cr_stored := None |} rq) = PErrorPage.
Proof. exact refusal_form_refuted. Qed.
Print Assumptions c01_refusal_form_refuted.

(* IF: a valid, authorised credential is served *)
Theorem c01_if : forall ep cfg bearer_on basic_on bypass validator allowed c rq s,
  session_chain bearer_on basic_on c = Some s -> authorised validator allowed s ->
  (ep = EpAuthOnly -> auth_only_authorize (q_groups rq) (q_domains rq) (q_emails rq) (Some s) = true) ->
  fst (serve ep cfg bearer_on basic_on bypass validator allowed c rq) =
    match ep with EpProxy => PUpstream (Some s) | EpAuthOnly => PAccepted (Some s) | EpUserInfo => PUserInfo (Some s) end.
Proof. exact serve_if. Qed.
Print Assumptions c01_if.

Theorem c01_unauthorised : forall ep cfg bearer_on basic_on validator allowed c rq s,
  session_chain bearer_on basic_on c = Some s ->
  ((a_email s <> [] /\ validator (a_email s) = false) \/ authorize allowed s = false) ->
  let '(o, cleared) := serve ep cfg bearer_on basic_on false validator allowed c rq in
  cleared = true /\ (o = PForbidden \/ o = PUnauthorized).
Proof. exact serve_unauthorised. Qed.
Print Assumptions c01_unauthorised.

(* the route table REGENERATED from buildServeMux / buildProxySubrouter: every handler that can
   disclose something (Proxy, AuthOnly, UserInfo) is registered behind the session chain, calls
   getAuthenticatedSession, and that function checks bypass, nil session, authorisation in this order *)
Theorem c01_routes :
  routes = [
    ("Path", "robotsPath", "pageWriter.WriteRobotsTxt", false);
    ("Path", "proxyPrefix+authOnlyPath", "AuthOnly", true);
    ("PathPrefix", "'/'", "Proxy", true);
    ("Path", "signInPath", "SignIn", false);
    ("Path", "oauthStartPath", "OAuthStart", false);
    ("Path", "oauthCallbackPath", "OAuthCallback", false);
    ("PathPrefix", "staticPathPrefix", "http.StripPrefix(p.ProxyPrefix,http.FileServer(http.FS(staticFiles)))", false);
    ("Path", "userInfoPath", "UserInfo", true);
    ("Path", "signOutPath", "SignOut", true)]%string /\
  (forall h, In h ["Proxy"; "AuthOnly"; "UserInfo"]%string -> In h handlers_calling_get_authenticated_session) /\
  get_authenticated_session_checks = ["bypass"; "nil-session"; "unauthorised"]%string.
Proof.
  split; [reflexivity|]. split; [|reflexivity].
  intros h [<-|[<-|[<-|[]]]]; vm_compute; tauto.
Qed.
Print Assumptions c01_routes.
