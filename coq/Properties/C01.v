(* C01 - no upstream access or identity disclosure without a valid credential or bypass.
   Only statements and `exact` / computation on the regenerated route table. *)
From V.Lib Require Import Bytes.
From V.Gen Require Import Routes.
From V.Model Require Import Authz Proxy.
From V.Proofs Require Import ProxyProofs.
From Coq Require Import String List.
Import ListNotations.
Open Scope N_scope.

(* ONLY IF, for every endpoint, configuration, credential situation and request: the upstream is
   reached, 202 answered or a non-empty identity returned only under a bypass, or with a session a
   loader vouched for (verified bearer token, accepted basic credentials, valid stored session)
   that also passes the authorisation rules (and the auth-only query constraints). *)
Theorem c01_only_if : forall ep cfg bearer_on basic_on bypass validator allowed c rq o cleared,
  serve ep cfg bearer_on basic_on bypass validator allowed c rq = (o, cleared) -> discloses o = true ->
  bypass = true \/
  exists s, ((bearer_on = true /\ cr_bearer c = Some s) \/ (basic_on = true /\ cr_basic c = Some s) \/ cr_stored c = Some s) /\
            authorised validator allowed s /\
            (ep = EpAuthOnly -> auth_only_authorize (q_groups rq) (q_domains rq) (q_emails rq) (Some s) = true).
Proof. exact serve_only_if. Qed.
Print Assumptions c01_only_if.

(* OTHERWISE: sign-in page, redirect to the provider, or 401 - and nothing is disclosed *)
Theorem c01_otherwise : forall ep cfg bearer_on basic_on validator allowed c rq,
  (bearer_on = false \/ cr_bearer c = None) -> (basic_on = false \/ cr_basic c = None) -> cr_stored c = None ->
  let o := fst (serve ep cfg bearer_on basic_on false validator allowed c rq) in
  discloses o = false /\
  (o = PSignInPage \/ o = PRedirectToProvider \/ o = PUnauthorized \/ (o = PErrorPage /\ q_clear_fails rq = true)).
Proof. exact serve_otherwise. Qed.
Print Assumptions c01_otherwise.

(* the last disjunct is real: with the server-side store and an undecodable ticket cookie the
   answer is the 500 error page (known finding; nothing is disclosed) *)
Theorem c01_refusal_form_refuted :
  let rq := {| q_ajax := false; q_api := false; q_groups := []; q_domains := []; q_emails := []; q_clear_fails := true |} in
  fst (serve EpProxy {| p_skip_provider_button := false; p_force_json := false |} true true false (fun _ => true) []
             {| cr_bearer := None; cr_basic := None; cr_stored := None |} rq) = PErrorPage.
Proof. exact refusal_form_refuted. Qed.
Print Assumptions c01_refusal_form_refuted.

(* IF: a valid, authorised credential is served *)
Theorem c01_if : forall ep cfg bearer_on basic_on bypass validator allowed c rq s,
  session_chain bearer_on basic_on c = Some s -> authorised validator allowed s ->
  (ep = EpAuthOnly -> auth_only_authorize (q_groups rq) (q_domains rq) (q_emails rq) (Some s) = true) ->
  fst (serve ep cfg bearer_on basic_on bypass validator allowed c rq) =
    match ep with EpProxy => PUpstream (Some s) | EpAuthOnly => PAccepted (Some s) | EpUserInfo => PUserInfo (Some s) end.
Proof. exact serve_if. Qed.
Print Assumptions c01_if.

Theorem c01_unauthorised : forall ep cfg bearer_on basic_on validator allowed c rq s,
  session_chain bearer_on basic_on c = Some s ->
  ((a_email s <> [] /\ validator (a_email s) = false) \/ authorize allowed s = false) ->
  let '(o, cleared) := serve ep cfg bearer_on basic_on false validator allowed c rq in
  cleared = true /\ (o = PForbidden \/ o = PUnauthorized).
Proof. exact serve_unauthorised. Qed.
Print Assumptions c01_unauthorised.

(* the route table REGENERATED from buildServeMux / buildProxySubrouter: every handler that can
   disclose something (Proxy, AuthOnly, UserInfo) is registered behind the session chain, calls
   getAuthenticatedSession, and that function checks bypass, nil session, authorisation in this order *)
Theorem c01_routes :
  routes = [
    ("Path", "robotsPath", "pageWriter.WriteRobotsTxt", false);
    ("Path", "proxyPrefix+authOnlyPath", "AuthOnly", true);
    ("PathPrefix", "'/'", "Proxy", true);
    ("Path", "signInPath", "SignIn", false);
    ("Path", "oauthStartPath", "OAuthStart", false);
    ("Path", "oauthCallbackPath", "OAuthCallback", false);
    ("PathPrefix", "staticPathPrefix", "http.StripPrefix(p.ProxyPrefix,http.FileServer(http.FS(staticFiles)))", false);
    ("Path", "userInfoPath", "UserInfo", true);
    ("Path", "signOutPath", "SignOut", true)]%string /\
  (forall h, In h ["Proxy"; "AuthOnly"; "UserInfo"]%string -> In h handlers_calling_get_authenticated_session) /\
  get_authenticated_session_checks = ["bypass"; "nil-session"; "unauthorised"]%string.
Proof.
  split; [reflexivity|]. split; [|reflexivity].
  intros h [<-|[<-|[<-|[]]]]; vm_compute; tauto.
Qed.
Print Assumptions c01_routes.

(* ---- end to end (Model/Compose.v): the bypass decision of C15, the signed cookie of C02 and the
   handlers above composed as oauthproxy.go composes them.  Whatever the request: a disclosing
   answer implies a bypass the operator configured (preflight skipping and an OPTIONS request, a
   skip-auth rule matching method and path, a trusted network containing the client address), or a
   session a token / basic-auth loader vouched for, or a presented cookie (or joined split cookie)
   whose third field decodes to the MAC of its name, first and second field under the
   deployment's secret, whose timestamp is inside the window and whose value decodes to that
   session - and in the last two cases the session passes the authorisation rules. *)
From V.Lib Require Import Base64 NetAddr.
From V.Model Require Import Signed Cookies CookieStore Bypass Compose.
From V.Proofs Require Import ComposeProofs.

Theorem c01_end_to_end : forall mac matches parse_uri_path parse_ip decode_session ep d r o cleared,
  serve_request mac matches parse_uri_path parse_ip decode_session ep d r = (o, cleared) -> discloses o = true ->
  ((d_skip_preflight d = true /\ b_method (r_b r) = options_m) \/
   is_allowed_route matches parse_uri_path (d_routes d) (r_b r) = true \/
   is_trusted_ip parse_ip (d_trusted d) (d_use_header d) (r_b r) = true) \/
  exists s,
    authorised (d_validator d) (d_groups d) s /\
    (ep = EpAuthOnly -> auth_only_authorize (q_groups (r_p r)) (q_domains (r_p r)) (q_emails (r_p r)) (Some s) = true) /\
    ((d_bearer_on d = true /\ r_bearer r = Some s) \/
     (d_basic_on d = true /\ r_basic r = Some s) \/
     exists n c raw t ev ts sg,
       load_cookie (c_name (d_cookie d)) (r_cookies r) = Some (n, c) /\
       validate mac n c (r_now r) (c_expire_ns (d_cookie d)) = Some (raw, t) /\
       decode_session raw = Some s /\
       split_on bar c = [ev; ts; sg] /\ url_decode sg = Some (mac (mac_input n ev ts)) /\
       atoi ts = Some t /\ url_decode ev = Some raw).
Proof. exact end_to_end_only_if. Qed.
Print Assumptions c01_end_to_end.

Theorem c01_end_to_end_otherwise : forall mac matches parse_uri_path parse_ip decode_session ep d r,
  bypassed matches parse_uri_path parse_ip d r = false ->
  (d_bearer_on d = false \/ r_bearer r = None) -> (d_basic_on d = false \/ r_basic r = None) ->
  store_load mac (d_cookie d) (r_cookies r) (r_now r) = None ->
  let o := fst (serve_request mac matches parse_uri_path parse_ip decode_session ep d r) in
  discloses o = false /\
  (o = PSignInPage \/ o = PRedirectToProvider \/ o = PUnauthorized \/ (o = PErrorPage /\ q_clear_fails (r_p r) = true)).
Proof. exact end_to_end_otherwise. Qed.
Print Assumptions c01_end_to_end_otherwise.

(* the same with the server-side store: the session is the store entry named by a ticket cookie that
   validates, unsealed with that ticket's secret *)
From V.Model Require Import Ticket.
Theorem c01_end_to_end_ticket : forall mac matches parse_uri_path parse_ip unseal store ep d r o cleared,
  serve_request_ticket mac matches parse_uri_path parse_ip unseal store ep d r = (o, cleared) -> discloses o = true ->
  ((d_skip_preflight d = true /\ b_method (r_b r) = options_m) \/
   is_allowed_route matches parse_uri_path (d_routes d) (r_b r) = true \/
   is_trusted_ip parse_ip (d_trusted d) (d_use_header d) (r_b r) = true) \/
  exists s,
    authorised (d_validator d) (d_groups d) s /\
    (ep = EpAuthOnly -> auth_only_authorize (q_groups (r_p r)) (q_domains (r_p r)) (q_emails (r_p r)) (Some s) = true) /\
    ((d_bearer_on d = true /\ r_bearer r = Some s) \/
     (d_basic_on d = true /\ r_basic r = Some s) \/
     exists v raw t id sec ct,
       find_cookie (c_name (d_cookie d)) (r_cookies r) = Some v /\
       validate mac (c_name (d_cookie d)) v (r_now r) (c_expire_ns (d_cookie d)) = Some (raw, t) /\
       decode_ticket raw = Some (id, sec) /\ store id = Some ct /\ unseal sec ct = Some s).
Proof. intros mac matches parse_uri_path parse_ip unseal. exact (end_to_end_ticket_only_if mac matches parse_uri_path parse_ip unseal). Qed.
Print Assumptions c01_end_to_end_ticket.
