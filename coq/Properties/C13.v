(* C13 - session-store failures fail closed.
   Only statements and `exact`; the lemmas live in Proofs/. *)
From Coq Require Import List Arith Bool Lia.
Import ListNotations.
From V.Model Require Import StoreFaults.
From V.Proofs Require Import StoreFaultsProofs.

(* For EVERY fault plan (any positions, kinds and multiplicities): a request is forwarded upstream
   as authenticated only if the reads it performed were unfaulted and the lock was obtained without
   error. *)
Theorem c13_auth : forall stale idp_ok p r,
  o_outcome (stored_request stale idp_ok p) = Upstream r ->
  p 0 = NoFault /\ (stale = true -> call_fails (p 1) = false /\ p 2 = NoFault).
Proof. exact upstream_implies_clean_reads. Qed.
Print Assumptions c13_auth.

Theorem c13_faulted_read_unauth : forall stale idp_ok p,
  faulty (p 0) = true ->
  is_upstream (o_outcome (stored_request stale idp_ok p)) = false /\ o_cookie_cleared (stored_request stale idp_ok p) = true.
Proof. exact faulted_first_read_unauth. Qed.
Print Assumptions c13_faulted_read_unauth.

Theorem c13_faulted_lock_unauth : forall idp_ok p,
  p 0 = NoFault -> call_fails (p 1) = true -> is_upstream (o_outcome (stored_request true idp_ok p)) = false.
Proof. exact faulted_lock_unauth. Qed.
Print Assumptions c13_faulted_lock_unauth.

Theorem c13_faulted_reload_unauth : forall idp_ok p,
  p 0 = NoFault -> call_fails (p 1) = false -> faulty (p 2) = true ->
  is_upstream (o_outcome (stored_request true idp_ok p)) = false.
Proof. exact faulted_reload_unauth. Qed.
Print Assumptions c13_faulted_reload_unauth.

(* no cookie for a session that was not persisted *)
Theorem c13_cookie_callback : forall p,
  o_session_cookie_set (callback_save p) = true -> call_fails (p 0) = false /\ o_outcome (callback_save p) = Redirect302.
Proof. exact cookie_implies_persisted_callback. Qed.
Print Assumptions c13_cookie_callback.

Theorem c13_cookie_refresh : forall stale idp_ok p,
  o_session_cookie_set (stored_request stale idp_ok p) = true -> call_fails (p 3) = false.
Proof. exact cookie_implies_persisted_refresh. Qed.
Print Assumptions c13_cookie_refresh.

Theorem c13_signout : forall p,
  o_outcome (sign_out p) = Redirect302 ->
  (read_fails (p 0) = false /\ call_fails (p 1) = false) \/ (read_fails (p 0) = true /\ call_fails (p 2) = false).
Proof. exact sign_out_success_implies_deleted. Qed.
Print Assumptions c13_signout.

Theorem c13_ready : forall p, o_outcome (ready_probe p) = Ready -> p 0 = NoFault.
Proof. exact ready_implies_ping_ok. Qed.
Print Assumptions c13_ready.

(* The strict reading ("ANY faulted operation => unauthenticated or error") is false of the faithful
   model, and exactly characterised: a faulted operation during a request that still goes upstream
   is the write after a successful refresh, the lock release, or a non-error fault kind on the lock
   call.  The first two are recorded as known findings (F8). *)
Theorem c13_strict_characterisation : forall stale idp_ok p r,
  o_outcome (stored_request stale idp_ok p) = Upstream r ->
  forall i o, In (i, o) (faulted_ops (o_ops (stored_request stale idp_ok p)) p 0) ->
  (o = OSet /\ i = 3) \/ (o = OLockRelease) \/ (o = OLockObtain /\ call_fails (p i) = false).
Proof. exact strict_characterisation. Qed.
Print Assumptions c13_strict_characterisation.

Theorem c13_strict_refuted_save :
  let p := fun i => if Nat.eqb i 3 then ErrBefore else NoFault in
  o_outcome (stored_request true true p) = Upstream true /\ o_session_cookie_set (stored_request true true p) = false.
Proof. exact strict_refuted_save. Qed.
Print Assumptions c13_strict_refuted_save.

(* the store is down for a whole request (every store operation of the request fails, whatever their
   number): no flow forwards anything upstream or hands out a session cookie, the login and the
   sign-out are answered with the error page, the readiness probe says not ready *)
Theorem c13_outage : forall p,
  (forall k, call_fails (p k) = true) ->
  (forall stale idp_ok, is_upstream (o_outcome (stored_request stale idp_ok p)) = false /\
                        o_session_cookie_set (stored_request stale idp_ok p) = false) /\
  o_outcome (callback_save p) = ErrorPage /\ o_session_cookie_set (callback_save p) = false /\
  o_outcome (sign_out p) = ErrorPage /\
  o_outcome (ready_probe p) = NotReady.
Proof. exact outage_fails_closed. Qed.
Print Assumptions c13_outage.

(* ---- corrupted stored data cannot unseal: the sealing cipher is the authenticated one ---- *)
From V.Gen Require Surface.

(* the model treats a corrupted store entry as one that fails to unseal.  That rests on the ticket's
   cipher authenticating what it decrypts: regenerated from pkg/sessions/persistence/ticket.go on this
   run, makeCipher builds exactly one cipher and it is AES-GCM (the stream mode of the signed cookies
   would decrypt a flipped bit into a flipped bit of the session) *)
Theorem c13_store_entries_are_authenticated : Surface.ticket_cipher_is_gcm = true.
Proof. vm_compute. reflexivity. Qed.
Print Assumptions c13_store_entries_are_authenticated.

(* ---- which handler answers a probe ---- *)
From V.Lib Require Import Bytes.
From V.Model Require Probe.
From V.Proofs Require ProbeProofs.
From V.Gen Require Probes.

(* With the store down no request is answered "ready" by the readiness check, whatever the configured
   paths and agents, the request path and its User-Agent. *)
Theorem c13_never_ready_when_down : forall c path ua, Probe.probe c false path ua <> Probe.ReadyOK.
Proof. exact ProbeProofs.never_ready_when_down. Qed.
Print Assumptions c13_never_ready_when_down.

(* The operator's ready path, asked for by a client that is not a ping agent: the answer is the store's
   (500 while it is down) - unless the operator listed that very path among the ping paths. *)
Theorem c13_ready_path_not_shadowed : forall c ua,
  Probe.nonempty (Probe.ready_path c) = true ->
  Probe.mem_str (Probe.ready_path c) (Probe.health_paths c) = false ->
  Probe.mem_str ua (filter Probe.nonempty (Probe.health_uas c)) = false ->
  Probe.probe c false (Probe.ready_path c) ua = Probe.NotReady /\ Probe.probe c true (Probe.ready_path c) ua = Probe.ReadyOK.
Proof. exact ProbeProofs.ready_path_not_shadowed. Qed.
Print Assumptions c13_ready_path_not_shadowed.

(* the premises are met by the default configuration, with and without the GCP health checks *)
Example c13_ready_default :
  forall gcp, Probe.probe {| Probe.ping_path := s "/ping"; Probe.ready_path := s "/ready"; Probe.ping_ua := []; Probe.gcp_checks := gcp |}
                false (s "/ready") (s "kube-probe/1.29") = Probe.NotReady.
Proof. intros [|]; vm_compute; reflexivity. Qed.

(* The wiring REGENERATED from oauthproxy.go buildPreAuthChain and the two middlewares on this run is the one
   Model/Probe.v is written against: the path and agent lists start from the configured ping path / agent and
   grow only by the GCP literals under opts.GCPHealthChecks; in both arms of opts.Logging.SilencePing the health
   check precedes the readiness check, which is given opts.ReadyPath and the session store; the two handlers
   have the modelled shape. *)
Theorem c13_probe_wiring_pinned :
  Probes.health_paths_initial = [s "opts.PingPath"] /\
  Probes.health_paths_gcp = [s """/liveness_check"""; s """/readiness_check"""] /\
  Probes.health_uas_initial = [s "opts.PingUserAgent"] /\
  Probes.health_uas_gcp = [s """GoogleHC/1.0"""] /\
  Probes.health_lists_other_writes = 0%nat /\
  Probes.chain_silenced = [s "middleware.NewHealthCheck(healthCheckPaths,healthCheckUserAgents)"; s "middleware.NewReadynessCheck(opts.ReadyPath,sessionStore)"; s "middleware.NewRequestLogger()"] /\
  Probes.chain_logged = [s "middleware.NewRequestLogger()"; s "middleware.NewHealthCheck(healthCheckPaths,healthCheckUserAgents)"; s "middleware.NewReadynessCheck(opts.ReadyPath,sessionStore)"] /\
  Probes.health_request_shape = true /\ Probes.health_sets_drop_empty = 2%nat /\ Probes.ready_check_shape = true.
Proof. repeat split; vm_compute; reflexivity. Qed.
Print Assumptions c13_probe_wiring_pinned.

(* the literals appended under opts.GCPHealthChecks are the model's *)
Theorem c13_gcp_literals :
  map (fun x => s """" ++ x ++ s """") Probe.gcp_paths = Probes.health_paths_gcp /\
  [s """" ++ Probe.gcp_ua ++ s """"] = Probes.health_uas_gcp.
Proof. split; vm_compute; reflexivity. Qed.
Print Assumptions c13_gcp_literals.
