(* C02 - session credentials are opaque and tamper-evident.
   Only statements and `exact`; the lemmas live in Proofs/. *)
From V.Lib Require Import Bytes Base64 NetAddr.
From V.Gen Require Import Consts.
From V.Model Require Import Signed Cookies CookieStore Ticket.
From V.Proofs Require Import SignedProofs TamperProofs.
From Coq Require Import Permutation.
Open Scope Z_scope.

(* For EVERY presented string, name, clock and MAC function: acceptance means the third field
   decodes to the MAC of name ++ field1 ++ field2 (nothing else is ever accepted), field2 is the
   returned timestamp and field1 decodes to the returned value. *)
Theorem c02_accepted_has_valid_mac : forall mac name c now e v t,
  validate mac name c now e = Some (v, t) ->
  exists ev ts sg,
    split_on bar c = [ev; ts; sg] /\ url_decode sg = Some (mac (mac_input name ev ts)) /\
    atoi ts = Some t /\ url_decode ev = Some v.
Proof. exact accepted_has_valid_mac. Qed.
Print Assumptions c02_accepted_has_valid_mac.

(* Accepted and MAC input equal to an issued one (same name, same timestamp length): the encoded
   value and timestamp ARE the issued ones, so it decodes to exactly the issued payload. *)
Theorem c02_accepted_alteration_is_issued : forall mac name c now e v t ev0 ts0,
  validate mac name c now e = Some (v, t) ->
  forall ev ts sg, split_on bar c = [ev; ts; sg] ->
  mac_input name ev ts = mac_input name ev0 ts0 -> length ts = length ts0 ->
  ev = ev0 /\ ts = ts0 /\ url_decode ev0 = Some v /\ atoi ts0 = Some t.
Proof. exact accepted_alteration_is_issued. Qed.
Print Assumptions c02_accepted_alteration_is_issued.

(* the residual ambiguity of the unseparated MAC input (observation O1), fully characterised *)
Theorem c02_mac_input_ambiguity : forall name ev ts ev' ts',
  mac_input name ev ts = mac_input name ev' ts' ->
  exists e, (ev = ev' ++ e /\ ts' = e ++ ts) \/ (ev' = ev ++ e /\ ts = e ++ ts').
Proof. exact mac_input_ambiguity. Qed.
Print Assumptions c02_mac_input_ambiguity.

Theorem c02_cross_name : forall n n' ev ts, n <> n' -> mac_input n ev ts <> mac_input n' ev ts.
Proof. exact cross_name_changes_message. Qed.
Print Assumptions c02_cross_name.

(* split cookies: order in the Cookie header is irrelevant; a dropped part ends the join there *)
Theorem c02_parts_order : forall name (cs cs' : list cookie),
  NoDup (map fst cs) -> Permutation cs cs' -> load_cookie name cs = load_cookie name cs'.
Proof. exact load_cookie_perm. Qed.
Print Assumptions c02_parts_order.

Theorem c02_parts_gap : forall fuel name cs count,
  find_cookie (split_cookie_name name count) cs = None -> collect_parts fuel name count cs = [].
Proof. exact collect_parts_gap. Qed.
Print Assumptions c02_parts_gap.

(* server-side store: the store is consulted only under the id of a ticket whose cookie validated,
   and a session results only from an entry that unseals under that ticket's secret *)
Theorem c02_ticket_reads_only_valid : forall mac session unseal store cfg cs now id,
  fst (manager_load mac session unseal store cfg cs now) = Some id ->
  exists v raw t sec,
    find_cookie (c_name cfg) cs = Some v /\
    validate mac (c_name cfg) v now (c_expire_ns cfg) = Some (raw, t) /\
    decode_ticket raw = Some (id, sec).
Proof. exact manager_load_reads_only_valid. Qed.
Print Assumptions c02_ticket_reads_only_valid.

(* ... and a save (login completion, refresh) writes under a ticket the request merely presented
   only if that cookie validates; otherwise under the freshly generated one *)
Theorem c02_save_adopts_only_valid_ticket : forall mac cfg host cs now fresh created ok,
  fst (manager_save mac cfg host cs now fresh created ok) = fst fresh \/
  exists v raw t sec,
    find_cookie (c_name cfg) cs = Some v /\
    validate mac (c_name cfg) v now (c_expire_ns cfg) = Some (raw, t) /\
    decode_ticket raw = Some (fst (manager_save mac cfg host cs now fresh created ok), sec).
Proof. exact manager_save_key_fresh_or_valid. Qed.
Print Assumptions c02_save_adopts_only_valid_ticket.

Theorem c02_ticket_session_from_store : forall mac session unseal store cfg cs now s,
  snd (manager_load mac session unseal store cfg cs now) = Some s ->
  exists id ct sec, fst (manager_load mac session unseal store cfg cs now) = Some id /\
                    store id = Some ct /\ unseal sec ct = Some s.
Proof. exact manager_load_session_implies_read. Qed.
Print Assumptions c02_ticket_session_from_store.

(* ---- the opacity clause, in the symbolic (Dolev-Yao) reading of Model/Symbolic.v ----
   The session cookie is the signed encryption of the session fields under the cookie secret; the
   server-side entry is their encryption under the per-ticket secret that only the browser's ticket
   cookie carries.  An observer of the cookie without the cookie secret, an observer of the store
   (entry only), and an observer of the ticket cookie alone each learn no token, e-mail or user
   name; browser and store together do (that is how a request is served). *)
From V.Model Require Import Symbolic.
From V.Proofs Require Import SymbolicProofs.

Theorem c02_cookie_opaque : forall n, ~ analz [session_cookie] (TSecret n).
Proof. exact session_cookie_secrecy. Qed.
Print Assumptions c02_cookie_opaque.

Theorem c02_store_entry_opaque : forall n, ~ analz [store_entry] (TSecret n).
Proof. exact store_entry_secrecy. Qed.
Print Assumptions c02_store_entry_opaque.

Theorem c02_ticket_cookie_has_no_session_field : forall n, n <> 9%nat -> ~ analz [ticket_cookie] (TSecret n).
Proof. exact ticket_cookie_has_no_session_field. Qed.
Print Assumptions c02_ticket_cookie_has_no_session_field.

Theorem c02_ticket_and_store_recover : analz [ticket_cookie; store_entry] a_access.
Proof. exact ticket_and_store_recover. Qed.
Print Assumptions c02_ticket_and_store_recover.

(* ---- every place that reads a cookie as a credential validates it ---- *)
From V.Gen Require Surface.
From V.Proofs Require SurfaceExpected.

(* the inventory REGENERATED on this run from all non-test sources - every req.Cookie / Cookies read and
   every call of encryption.Validate / SignedValue - is exactly the reviewed list, in which each read is
   either validated (in place, by its caller or by its callee) or uses cookie names only.  A new reader
   (a helper that decodes a presented cookie without validating it, say) re-opens this obligation. *)
Theorem c02_credential_reads_pinned :
  map fst SurfaceExpected.expected_credential_surface = Surface.credential_surface.
Proof. vm_compute. reflexivity. Qed.
Print Assumptions c02_credential_reads_pinned.

Theorem c02_credential_reads_reviewed :
  forallb (fun e => SurfaceExpected.cred_reviewed (snd e)) SurfaceExpected.expected_credential_surface = true.
Proof. vm_compute. reflexivity. Qed.
Print Assumptions c02_credential_reads_reviewed.

(* ---- the MAC the theorems speak of is computed the way the source computes it ---- *)
(* regenerated from pkg/encryption/utils.go on this run: HMAC keyed with the secret over every further
   field in order, the digest alone as result; SignedValue signs (name, encoded value, timestamp),
   Validate checks the third field against (name, first field, second field) AS RECEIVED, and the
   comparison is hmac.Equal.  The model's `mac (name ++ value ++ timestamp)` stands for exactly this. *)
Theorem c02_mac_shape : forallb snd Surface.mac_shape = true /\ length Surface.mac_shape = 7%nat.
Proof. split; vm_compute; reflexivity. Qed.
Print Assumptions c02_mac_shape.
