(* C14 - identity-provider failures and malformed responses fail closed.
   Only statements and `exact`; the lemmas live in Proofs/. *)
From V.Lib Require Import Bytes.
From V.Model Require Import Oidc Refresh.
From V.Proofs Require Import OidcProofs RefreshProofs.
Open Scope Z_scope.

(* a token response without an ID token never completes a login *)
Theorem c14_no_id_token : forall cfg now pf, redeem cfg now None pf = None.
Proof. exact no_id_token_no_login. Qed.
Print Assumptions c14_no_id_token.

(* a token that does not verify (signature, issuer, expiry, audience incl. wrongly typed audience
   claims) yields no session on any path *)
Theorem c14_unverified : forall cfg now t pf,
  verify_token cfg now t = false ->
  redeem cfg now (Some t) pf = None /\ session_from_bearer cfg now t = None /\
  forall old, refresh_identity cfg now old (Some t) pf = None.
Proof. exact unverified_token_no_session. Qed.
Print Assumptions c14_unverified.

Theorem c14_audience_wrong_type : forall cfg claims n rest v,
  jlookup n claims = Some v ->
  (match v with JStr _ => False | JArr l => all_strings l = None | _ => True end) ->
  verify_audience_claims cfg claims (n :: rest) = false.
Proof. exact audience_wrong_type. Qed.
Print Assumptions c14_audience_wrong_type.

(* a failing profile lookup for a claim the token lacks yields no session *)
Theorem c14_profile_failure : forall cfg now t,
  (get_claim (g_user_claim cfg) (t_claims t) (Some None) = LookupError \/
   get_claim (g_email_claim cfg) (t_claims t) (Some None) = LookupError \/
   get_claim (g_groups_claim cfg) (t_claims t) (Some None) = LookupError \/
   get_claim (s "preferred_username") (t_claims t) (Some None) = LookupError) ->
  redeem cfg now (Some t) (Some None) = None.
Proof. exact profile_failure_no_session. Qed.
Print Assumptions c14_profile_failure.

(* a failed refresh keeps the old session only if it still validates; otherwise unauthenticated and
   the cookie cleared *)
Theorem c14_refresh_failure : forall stale has_rt refresh_ok valid_old valid_new o called cleared,
  seq_refresh stale has_rt refresh_ok valid_old valid_new = (o, called, cleared) ->
  stale = true ->
  (o = SeqServedNew /\ has_rt = true /\ refresh_ok = true /\ valid_new = true /\ cleared = false) \/
  (o = SeqServedOld /\ valid_old = true /\ cleared = false) \/
  (o = SeqUnauth /\ cleared = true).
Proof. exact seq_never_stale. Qed.
Print Assumptions c14_refresh_failure.

(* ---- providers outside the OIDC family (Model/GenericProvider.v: ProviderData.Redeem, a provider's e-mail
   lookup at its profile endpoint, validateToken).  A session is created only when the token endpoint AND the
   profile endpoint each answered 200 with the whole response received, the token endpoint's body carried a
   non-empty access token (as JSON or as a form) and the profile an e-mail address; an error status never
   yields a session whatever its body says; a stale session validates only on a 200 whose whole response arrived. *)
From V.Lib Require Import Bytes.
From V.Model Require Import GenericProvider.
From V.Proofs Require Import GenericProviderProofs.
From Coq Require Import ZArith.

Theorem c14_generic_login_only_if : forall code rt bt rp email tok e,
  generic_login code rt bt rp email = Some (tok, e) ->
  code <> [] /\ rp_transport_ok rt = true /\ rp_status rt = 200%Z /\
  rp_transport_ok rp = true /\ rp_status rp = 200%Z /\ tok <> [] /\ email = Some e /\
  (bt = TJson (Some tok) \/ bt = TForm (Some tok)).
Proof. exact generic_login_only_if. Qed.
Print Assumptions c14_generic_login_only_if.

Theorem c14_generic_error_status_no_session : forall code rt bt rp email,
  rp_status rt <> 200%Z -> generic_login code rt bt rp email = None.
Proof. exact error_status_no_session. Qed.
Print Assumptions c14_generic_error_status_no_session.

Theorem c14_generic_validate_only_if : forall tok r,
  generic_validate tok r = true -> tok <> [] /\ rp_transport_ok r = true /\ rp_status r = 200%Z.
Proof. exact generic_validate_only_if. Qed.
Print Assumptions c14_generic_validate_only_if.

(* ---- a profile answer that yields no e-mail ---- *)
From V.Model Require Authz.
From V.Proofs Require AuthzProofs.

(* Providers report "the profile answer held no usable e-mail" by leaving the session's e-mail empty (GitHub
   /user/emails without a verified primary address, Bitbucket without a primary one, a userinfo document without
   the claim).  Whatever the configured e-mail domains - the wildcard included - whatever the authenticated-emails
   file and the group rule: such a login is not admitted. *)
Theorem c14_no_email_no_session : forall domains file allowed s,
  Authz.a_email s = [] -> Authz.login_admits (Authz.email_valid domains file) allowed s = false.
Proof. exact AuthzProofs.login_without_email_refused. Qed.
Print Assumptions c14_no_email_no_session.

Example c14_no_email_wildcard :
  Authz.login_admits (Authz.email_valid [Bytes.s "*"] []) [] {| Authz.a_email := []; Authz.a_groups := [] |} = false
  /\ Authz.login_admits (Authz.email_valid [Bytes.s "*"] []) [] {| Authz.a_email := Bytes.s "dev@example.com"; Authz.a_groups := [] |} = true.
Proof. split; vm_compute; reflexivity. Qed.
