(* C14 - identity-provider failures and malformed responses fail closed.
   Only statements and `exact`; the lemmas live in Proofs/. *)
From V.Lib Require Import Bytes.
From V.Model Require Import Oidc Refresh.
From V.Proofs Require Import OidcProofs RefreshProofs.
Open Scope Z_scope.

(* a token response without an ID token never completes a login *)
Theorem c14_no_id_token : forall cfg now pf, redeem cfg now None pf = None.
Proof. exact no_id_token_no_login. Qed.
Print Assumptions c14_no_id_token.

(* a token that does not verify (signature, issuer, expiry, audience incl. wrongly typed audience
   claims) yields no session on any path *)
Theorem c14_unverified : forall cfg now t pf,
  verify_token cfg now t = false ->
  redeem cfg now (Some t) pf = None /\ session_from_bearer cfg now t = None /\
  forall old, refresh_identity cfg now old (Some t) pf = None.
Proof. exact unverified_token_no_session. Qed.
Print Assumptions c14_unverified.

Theorem c14_audience_wrong_type : forall cfg claims n rest v,
  jlookup n claims = Some v ->
  (match v with JStr _ => False | JArr l => all_strings l = None | _ => True end) ->
  verify_audience_claims cfg claims (n :: rest) = false.
Proof. exact audience_wrong_type. Qed.
Print Assumptions c14_audience_wrong_type.

(* a failing profile lookup for a claim the token lacks yields no session *)
Theorem c14_profile_failure : forall cfg now t,
  (get_claim (g_user_claim cfg) (t_claims t) (Some None) = LookupError \/
   get_claim (g_email_claim cfg) (t_claims t) (Some None) = LookupError \/
   get_claim (g_groups_claim cfg) (t_claims t) (Some None) = LookupError \/
   get_claim (s "preferred_username") (t_claims t) (Some None) = LookupError) ->
  redeem cfg now (Some t) (Some None) = None.
Proof. exact profile_failure_no_session. Qed.
Print Assumptions c14_profile_failure.

(* a failed refresh keeps the old session only if it still validates; otherwise unauthenticated and
   the cookie cleared *)
Theorem c14_refresh_failure : forall stale has_rt refresh_ok valid_old valid_new o called cleared,
  seq_refresh stale has_rt refresh_ok valid_old valid_new = (o, called, cleared) ->
  stale = true ->
  (o = SeqServedNew /\ has_rt = true /\ refresh_ok = true /\ valid_new = true /\ cleared = false) \/
  (o = SeqServedOld /\ valid_old = true /\ cleared = false) \/
  (o = SeqUnauth /\ cleared = true).
Proof. exact seq_never_stale. Qed.
Print Assumptions c14_refresh_failure.
