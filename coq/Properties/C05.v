(* C05 - nonce and PKCE bind the token response to this login's authorization request.
   Only statements and `exact`; the lemmas live in Proofs/. *)
From V.Lib Require Import Bytes Base64.
From V.Gen Require Import Consts.
From V.Model Require Import Oidc Csrf Pkce.
From V.Proofs Require Import OidcProofs PkceProofs.
Open Scope Z_scope.

(* with nonce checking on, validation passes only if the ID token verifies and its nonce claim
   equals the hash of the nonce stored for THIS login *)
Theorem c05_nonce : forall hash cfg now nonce t,
  validate_session hash cfg now nonce t = true -> g_skip_nonce cfg = false ->
  verify_token cfg now t = true /\
  hash_nonce hash nonce = (match get_claim (s "nonce") (t_claims t) None with Found v => to_string v | _ => [] end).
Proof. exact validate_session_nonce. Qed.
Print Assumptions c05_nonce.

(* an absent, null or empty nonce claim never passes (hash output is 43 bytes) *)
Theorem c05_missing_nonce : forall hash, (forall x, length (hash x) = 43%nat) ->
  forall cfg now nonce t,
  nonce <> [] -> g_skip_nonce cfg = false ->
  (match get_claim (s "nonce") (t_claims t) None with Found v => to_string v | _ => [] end) = [] ->
  validate_session hash cfg now nonce t = false.
Proof. exact missing_nonce_rejected. Qed.
Print Assumptions c05_missing_nonce.

Theorem c05_raw_nonce : forall hash cfg now nonce t,
  g_skip_nonce cfg = false ->
  get_claim (s "nonce") (t_claims t) None = Found (JStr nonce) -> hash_nonce hash nonce <> nonce ->
  validate_session hash cfg now nonce t = false.
Proof. exact raw_nonce_rejected. Qed.
Print Assumptions c05_raw_nonce.

(* PKCE: verifier of verifier_bytes (regenerated: 96) random bytes is 128 unreserved characters *)
Theorem c05_verifier_shape : forall rnd,
  Z.of_nat (length rnd) = verifier_bytes -> is_bytes rnd ->
  length (code_verifier rnd) = 128%nat /\ (43 <= length (code_verifier rnd) <= 128)%nat /\
  forallb is_unreserved (code_verifier rnd) = true.
Proof. exact verifier_shape. Qed.
Print Assumptions c05_verifier_shape.

Theorem c05_verifier_fresh : forall r1 r2,
  is_bytes r1 -> is_bytes r2 -> code_verifier r1 = code_verifier r2 -> r1 = r2.
Proof. exact verifier_injective. Qed.
Print Assumptions c05_verifier_fresh.

Theorem c05_challenge : forall sha256 m rnd,
  m <> PkceNone ->
  st_challenge (oauth_start_pkce sha256 m rnd) = code_challenge sha256 m (st_verifier (oauth_start_pkce sha256 m rnd)) /\
  st_verifier (oauth_start_pkce sha256 m rnd) = code_verifier rnd.
Proof. exact start_challenge_matches. Qed.
Print Assumptions c05_challenge.

(* ---- the secrecy clause, in the symbolic (Dolev-Yao) reading of Model/Symbolic.v ----
   Everything sent to the browser at a login start is the signed, encrypted CSRF cookie and the
   authorization request (state = hash of the state nonce with the redirect, nonce = hash of the
   OIDC nonce, code challenge per method).  Whoever sees all of it and can take pairs apart and
   decrypt with any key it learns - but does not hold the cookie secret - learns none of the
   secret atoms: not the raw nonces, not the cookie secret, and (unless the method is `plain`,
   where the challenge IS the verifier) not the verifier. *)
From V.Model Require Import Symbolic.
From V.Proofs Require Import SymbolicProofs.

Theorem c05_secrecy : forall m send_nonce n, m <> SPlain -> ~ analz (login_start_view m send_nonce) (TSecret n).
Proof. exact login_start_secrecy. Qed.
Print Assumptions c05_secrecy.

Theorem c05_secrecy_plain : forall send_nonce n, n <> 3%nat -> ~ analz (login_start_view SPlain send_nonce) (TSecret n).
Proof. exact login_start_secrecy_plain. Qed.
Print Assumptions c05_secrecy_plain.

(* the exclusion is necessary: with `plain` the verifier is disclosed *)
Theorem c05_plain_discloses_verifier : forall send_nonce, analz (login_start_view SPlain send_nonce) a_verifier.
Proof. exact plain_discloses_verifier. Qed.
Print Assumptions c05_plain_discloses_verifier.

(* the shape the correspondence compares with the real authorization request on every run *)
Theorem c05_auth_request_shapes : forall send_nonce : bool,
  let n := if send_nonce then 2%nat else 0%nat in
  auth_request_shape SNone send_nonce = (2, n, 0)%nat /\ auth_request_shape SPlain send_nonce = (2, n, 1)%nat /\
  auth_request_shape SS256 send_nonce = (2, n, 2)%nat.
Proof. exact auth_request_shapes. Qed.
Print Assumptions c05_auth_request_shapes.

(* ---- the challenge method as the operator wrote it ---- *)
From V.Gen Require Wiring.

(* A configured method that is neither "S256" nor "plain" (another letter case, a stray space or newline, an
   algorithm name) starts no login: nothing is sent to the browser, in particular no verifier under a method name no
   identity provider can check. *)
Theorem c05_unknown_method_refused : forall sha256 m rnd,
  m <> [] -> m <> s "S256" -> m <> s "plain" -> start_by_string sha256 m rnd = None.
Proof. exact unknown_method_refused. Qed.
Print Assumptions c05_unknown_method_refused.

(* What is sent carries the verifier itself as the challenge only under the method "plain" (or if the verifier is a
   fixed point of the S256 derivation). *)
Theorem c05_verifier_in_clear_only_plain : forall sha256 m rnd st,
  start_by_string sha256 m rnd = Some st -> st_challenge st = Some (st_verifier st) ->
  m = s "plain" \/ rawurl_encode (sha256 (st_verifier st)) = st_verifier st.
Proof. exact verifier_in_clear_only_plain. Qed.
Print Assumptions c05_verifier_in_clear_only_plain.

(* the switch of GenerateCodeChallenge REGENERATED from pkg/encryption/utils.go on this run is the model's: "plain"
   returns the verifier, "S256" hashes it, every other string is an error *)
Theorem c05_challenge_switch_pinned :
  Wiring.code_challenge_switch =
    [s "switch method"; s """plain"" => return codeVerifier, nil"; s """S256"" => shaSum := sha256.Sum256([]byte(codeVerifier))";
     s "default => return """", fmt.Errorf(""unknown challenge method: %v"", method)"].
Proof. vm_compute. reflexivity. Qed.
Print Assumptions c05_challenge_switch_pinned.

(* the tags binding every option (the OIDC switches among them) to its flag and configuration key, REGENERATED from
   pkg/apis/options on this run, are regular: insecure-oidc-skip-nonce is read by the nonce switch and by nothing else *)
Theorem c05_option_tags_regular :
  Wiring.option_tags_irregular = [] /\ Wiring.option_flags_unregistered = [] /\ Wiring.option_flags_untagged = [].
Proof. repeat split; vm_compute; reflexivity. Qed.
Print Assumptions c05_option_tags_regular.

(* HashNonce REGENERATED on this run creates its hasher inside the call (no state shared between the logins in flight): the
   `hash` of c05_nonce is a function of the nonce alone *)
Theorem c05_nonce_hash_is_per_call :
  Wiring.hash_nonce_state = [s "hasher := sha256.New()"; s "hasher.Write(nonce)"; s "sum := hasher.Sum(nil)"].
Proof. vm_compute. reflexivity. Qed.
Print Assumptions c05_nonce_hash_is_per_call.
