(* C15 - authentication bypass rules match exactly what the operator configured.
   Only statements and `exact`; the lemmas live in Proofs/. *)
From V.Lib Require Import Bytes NetAddr.
From V.Model Require Import Bypass.
From V.Proofs Require Import BypassProofs.
Open Scope N_scope.

(* For every regex-matching function, every rule list and every request: the request is exempt
   iff some rule has no method or the request's method, and its regex matches the request PATH
   (does not match, for a negated rule). *)
Theorem c15_route : forall matches parse_uri_path routes rq,
  is_allowed_route matches parse_uri_path routes rq = true <->
  exists r, In r routes /\
    (r_method r = [] \/ r_method r = b_method rq) /\
    xorb (matches (r_regex r) (request_path parse_uri_path rq)) (r_negate r) = true.
Proof. exact is_allowed_route_spec. Qed.
Print Assumptions c15_route.

(* query string, fragment and everything else are irrelevant: same method and path, same decision *)
Theorem c15_path_only : forall matches parse_uri_path routes rq rq',
  b_method rq = b_method rq' ->
  request_path parse_uri_path rq = request_path parse_uri_path rq' ->
  is_allowed_route matches parse_uri_path routes rq = is_allowed_route matches parse_uri_path routes rq'.
Proof. exact is_allowed_route_path_only. Qed.
Print Assumptions c15_path_only.

Theorem c15_path_ignores_forwarded_uri : forall parse_uri_path rq,
  b_proxied rq = false ->
  request_path parse_uri_path rq =
    match parse_uri_path (b_request_uri rq) with Some p => p | None => cut_at_query_or_fragment (b_request_uri rq) end.
Proof. exact request_path_not_proxied. Qed.
Print Assumptions c15_path_ignores_forwarded_uri.

(* trusted networks: for every list of networks and every 128-bit address *)
Theorem c15_netset : forall nets ip,
  set_has (build_set nets) ip = true <-> exists n, In n nets /\ contains n ip.
Proof. exact build_set_spec. Qed.
Print Assumptions c15_netset.

(* preflight, routes and trusted IPs are the only exemptions; preflight only for OPTIONS and only
   when enabled *)
Theorem c15_allowed_request : forall matches parse_uri_path parse_ip skip routes s use_header rq,
  is_allowed_request matches parse_uri_path parse_ip skip routes s use_header rq = true <->
  (skip = true /\ b_method rq = options_m) \/
  is_allowed_route matches parse_uri_path routes rq = true \/
  is_trusted_ip parse_ip s use_header rq = true.
Proof. exact is_allowed_request_spec. Qed.
Print Assumptions c15_allowed_request.

Theorem c15_trusted_remote_only : forall parse_ip s rq rq',
  b_remote_addr rq = b_remote_addr rq' ->
  is_trusted_ip parse_ip s false rq = is_trusted_ip parse_ip s false rq'.
Proof. exact trusted_ip_remote_only. Qed.
Print Assumptions c15_trusted_remote_only.

Theorem c15_trusted_header_only : forall parse_ip s rq rq',
  b_ip_header rq = b_ip_header rq' ->
  is_trusted_ip parse_ip s true rq = is_trusted_ip parse_ip s true rq'.
Proof. exact trusted_ip_header_only. Qed.
Print Assumptions c15_trusted_header_only.
