(* C04 - identity comes only from tokens the configured issuer signed for this client.
   Only statements and `exact`; the lemmas live in Proofs/. *)
From V.Lib Require Import Bytes.
From V.Model Require Import Oidc.
From V.Proofs Require Import OidcProofs.
Open Scope Z_scope.

(* what passing verification guarantees, for every token and configuration *)
Theorem c04_verified : forall cfg now t,
  verify_token cfg now t = true ->
  t_sig_ok t = true /\ (g_skip_issuer cfg = true \/ t_iss t = g_issuer cfg) /\
  (exists e, t_exp t = Some e /\ now < e) /\ audience_ok cfg (t_claims t).
Proof. exact verify_token_sound. Qed.
Print Assumptions c04_verified.

(* the three entry paths: callback (Redeem), refresh, bearer token *)
Theorem c04_callback : forall cfg now idt pf id,
  redeem cfg now idt pf = Some id ->
  exists t, idt = Some t /\ verify_token cfg now t = true /\ build_identity cfg (t_claims t) pf = Some id.
Proof. exact redeem_sound. Qed.
Print Assumptions c04_callback.

Theorem c04_refresh : forall cfg now old idt pf id,
  refresh_identity cfg now old idt pf = Some id ->
  (idt = None /\ id = old) \/
  (exists t, idt = Some t /\ verify_token cfg now t = true /\ build_identity cfg (t_claims t) pf = Some id).
Proof. exact refresh_identity_sound. Qed.
Print Assumptions c04_refresh.

Theorem c04_bearer : forall cfg now t id,
  session_from_bearer cfg now t = Some id ->
  verify_token cfg now t = true /\ exists id0, build_identity cfg (t_claims t) None = Some id0 /\
    i_user id = i_user id0 /\ i_groups id = i_groups id0 /\ (i_email id0 <> [] -> i_email id = i_email id0).
Proof. exact bearer_sound. Qed.
Print Assumptions c04_bearer.

(* identity fields are the coerced configured claims; the standard e-mail claim must not be marked
   unverified (unless allowed); lookups that failed produce no identity *)
Theorem c04_claims : forall cfg claims pf id,
  build_identity cfg claims pf = Some id ->
  email_verified_ok cfg claims pf /\
  get_claim (g_user_claim cfg) claims pf <> LookupError /\ get_claim (g_email_claim cfg) claims pf <> LookupError /\
  get_claim (g_groups_claim cfg) claims pf <> LookupError /\
  i_user id = (match get_claim (g_user_claim cfg) claims pf with Found v => to_string v | _ => [] end) /\
  i_email id = (match get_claim (g_email_claim cfg) claims pf with Found v => to_string v | _ => [] end) /\
  i_groups id = (match get_claim (g_groups_claim cfg) claims pf with Found v => to_string_slice v | _ => [] end) /\
  i_pref id = (match get_claim (s "preferred_username") claims pf with Found v => to_string v | _ => [] end).
Proof. exact build_identity_sound. Qed.
Print Assumptions c04_claims.

(* the token's own claim wins; the profile endpoint supplies only what the token lacks *)
Theorem c04_token_first : forall claim tok pf v,
  claim <> [] -> get_claim_from claim tok = Some v -> get_claim claim tok pf = Found v.
Proof. exact get_claim_token_first. Qed.
Print Assumptions c04_token_first.

Theorem c04_profile_only_if_missing : forall claim tok o v,
  get_claim claim tok (Some (Some o)) = Found v -> get_claim_from claim tok = None ->
  get_claim_from claim o = Some v.
Proof. exact get_claim_profile_only_if_missing. Qed.
Print Assumptions c04_profile_only_if_missing.

(* ---- extra JWT issuers: "<issuer>=<audience>" ---- *)
From V.Lib Require Import Bytes.
From V.Model Require JwtIssuers.
From V.Proofs Require JwtIssuersProofs.

(* An --extra-jwt-issuers entry whose issuer part holds no "=" configures EXACTLY the audience written after the first
   "=", whatever that audience contains (a query string, base64 padding, key=value pairs): the verifier built for that
   issuer accepts tokens for that audience and no shorter or longer one. *)
Theorem c04_extra_issuer_audience : forall uri aud,
  memb JwtIssuers.eq_sign uri = false ->
  JwtIssuers.parse_jwt_issuer (uri ++ JwtIssuers.eq_sign :: aud) = Some (uri, aud).
Proof. exact JwtIssuersProofs.parse_issuer_spec. Qed.
Print Assumptions c04_extra_issuer_audience.

Theorem c04_extra_issuer_needs_audience : forall spec,
  memb JwtIssuers.eq_sign spec = false -> JwtIssuers.parse_jwt_issuer spec = None.
Proof. exact JwtIssuersProofs.parse_issuer_no_eq. Qed.
Print Assumptions c04_extra_issuer_needs_audience.

Example c04_extra_issuer_audience_with_query :
  JwtIssuers.parse_jwt_issuer (s "https://idp2.example=api://reports?env=prod&x=1") = Some (s "https://idp2.example", s "api://reports?env=prod&x=1").
Proof. vm_compute. reflexivity. Qed.
