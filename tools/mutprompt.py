#!/usr/bin/env python3
"""Prints the prompt given to an independent sub-agent that is asked to break one property.
Only the property text and the scratch worktree path are given (nothing from /verif)."""
import json, sys
pid = sys.argv[1]
wt = "/tmp/mut-" + pid
for l in open("/verif/properties.jsonl"):
    d = json.loads(l)
    if d["id"] == pid:
        break
else:
    sys.exit("no such property")
print(f"""You are working on a scratch git worktree of the oauth2-proxy Go repository (an OAuth2/OIDC authenticating reverse proxy) at {wt}. Work ONLY inside {wt}. Never read or modify /repo or /verif. There is no network. Run Go with the environment `GOFLAGS=-mod=mod GOPROXY=off` (do not set GOTOOLCHAIN or GOSUMDB), e.g. `cd {wt} && GOFLAGS=-mod=mod GOPROXY=off go build ./... && GOFLAGS=-mod=mod GOPROXY=off go test -vet=off -count=1 ./...`.

This is robustness research on a verification harness (mutation testing): I need realistic *seeded defects*.

Property "{d['title']}":
{d['statement']}
(Quantified over: {d['quantifier']['text']})

Task: produce 2 distinct changes to the NON-test source code, each of which breaks this property while the repository still compiles (`go build ./...`) and the ENTIRE existing test suite still passes unedited (`go test -vet=off -count=1 ./...`; run the full suite for each change before you keep it). Each change should look like a plausible regression (refactoring slip, off-by-one, wrong variable, dropped or reordered check, wrong comparison, misplaced lock, lost error) and must need something specific to manifest: an unusual input, a multi-step sequence of operations, a fault or crash at a particular point, a particular interleaving, or two cooperating sites that each look fine alone. Do NOT produce changes that ordinary use (a normal login and a normal authenticated request) would expose at once. The two changes should be in different functions / break different clauses of the property where possible.

For each change i in 1,2 deliver in {wt}/out/m<i>/ :
- patch.diff : `git diff` against HEAD (must apply to a clean checkout with `git apply`), touching only non-test source files;
- a demonstration: a Go test file (name it zz_demo_m<i>_test.go, and say in the README which package directory it must be copied into) that FAILS with the patch applied and PASSES on the unpatched tree; it may use the package's existing test helpers;
- README.md : which clause of the property it breaks, what is needed for it to manifest, the exact commands you ran (build, full suite, demo with and without the patch) and their outcome.
When finished, leave the worktree clean (git checkout -- . and remove the demo test from the package dirs; keep only the untracked out/ directory). In your final message give a 10-line summary of the two changes.""")
