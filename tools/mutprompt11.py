#!/usr/bin/env python3
"""Round-3 prompt: like mutprompt2.py with every change known so far (rounds 1 and 2) listed and a
different emphasis: packages and clauses not touched yet, interactions between two options, state
carried from one request to the next."""
import json, sys, os, glob
pid = sys.argv[1]
wt = "/tmp/mut11-" + pid
known = []
for d in sorted(glob.glob("/verif/seeded/%s-*" % pid)):
    m = json.load(open(os.path.join(d, "meta.json")))
    known.append(m["summary"][:260])
# changes recorded under another property that touch the same area are listed too (short form)
base = os.popen("python3 /verif/tools/mutprompt.py %s" % pid).read().replace("/tmp/mut-" + pid, wt)
extra = "\n\nAlready known changes for this property (do NOT repeat these or close variants):\n" + "\n".join("- " + k for k in known)
extra += ("\n\nThis is the eleventh round: the obvious places have been used.  Look for: (a) source files and functions that none of the known changes touches "
          "but that the property's behaviour still passes through (helpers in pkg/, option conversion and validation code, constructors that wire things "
          "together, middleware ordering, provider-specific overrides, error and logging paths that write to the response); (b) defects that need TWO options "
          "or two requests to interact (state shared between requests, a value cached at construction, a map or slice aliased between callers, a default "
          "applied in one place and not another); (c) boundary values of sizes, counts, times and lengths that sit exactly on a comparison; (d) inputs in "
          "an unusual but legal spelling (letter case, repeated headers or parameters, empty values, trailing separators, IPv6 and IPv4-mapped forms, "
          "percent-encoding, HTTP/1.0); (e) ordering and concurrency: an operation moved outside a lock or after a response was started, an error path that "
          "leaves state behind for the next request, two requests in flight at once; (f) the same configuration given through the legacy flags, the "
          "environment or a config file instead of structured options; (g) a library helper replaced by a near-equivalent (Split vs SplitN, TrimSpace vs "
          "Trim, Std vs URL base64, Before vs !After, EqualFold vs ==, Contains vs HasPrefix); (h) defaults and validation: a default applied to the "
          "legacy flag but not to the structured option (or the reverse), a validation step that normalises a value the runtime later compares "
          "un-normalised, an option honoured by one session store or one provider family and not the other; (i) request shapes rarely tried: HEAD and "
          "other methods, repeated query parameters and cookies of the same name, a body on a GET, very long values, IPv4-mapped IPv6 peers, "
          "a trailing dot or upper case in Host; (j) arithmetic on durations and timestamps (seconds vs nanoseconds, truncation, a zero or negative "
          "configured duration, the exact boundary instant); (k) code reached only in a deployment shape the usual tests do not build: websocket "
          "upgrade requests, unix-socket upstreams and listeners, TLS listeners with force-https, metrics and health endpoints, auth-only "
          "(nginx auth_request) mode, static and file upstreams, multiple upstreams sharing a host, the Redis cluster / sentinel client "
          "constructors, the providers other than OIDC (GitHub, GitLab, Google, Azure, Entra ID, Keycloak, Bitbucket, login.gov, ADFS, Nextcloud, "
          "DigitalOcean, LinkedIn, Facebook); (l) a clean-up that removes a statement which looks redundant but is load-bearing (a second "
          "validation after a state change, a copy before mutation, a nil or empty guard, a deferred call, an explicit header deletion); "
          "(m) parsing edges: ports and numbers with leading zeros, plus signs or surrounding spaces, empty list items, a trailing comma, "
          "duplicate keys, upper-case hex in percent-encoding, bracketed IPv6 literals with zones, international domain names and letter case of "
          "e-mail addresses and domains; (n) HTTP semantics: HEAD and OPTIONS, Expect: 100-continue, chunked request bodies and trailers, "
          "Connection-listed hop-by-hop headers, absolute-form request targets, HTTP/1.0 requests without a Host header, very many headers or "
          "cookies; (o) context cancellation and timeouts: a client that disconnects mid-request, a deadline that fires between two steps, "
          "a background goroutine (file watcher, key-set refresh) that stops after its first error; (p) values cached for the life of the process "
          "(compiled regexps, parsed templates, verifier key sets, the discovery document, default headers) that go stale or are shared where "
          "they should be per request; (q) the error and sign-in PAGES and their templates (what they echo, which status they carry, "
          "whether they clear cookies), the static assets and robots handler, the metrics endpoint, request-id and logging middleware that "
          "wrap the response writer; (r) option CONVERSION code: legacy options to structured ones, defaults filled in by `NewOptions`/`NewLegacyOptions`, "
          "`Validate` steps that rewrite options (sorting, lower-casing, defaulting), provider-specific defaults (scopes, URLs, claim names); "
          "(s) a condition that is right for one session store or one provider family and silently wrong for the other; (t) integer and "
          "slice arithmetic at the boundaries the splitting, truncation and padding code relies on.  "
          "Put a stub `out/go.mod` (content: `module out`) in the out directory so that `go build ./...` ignores the demo files stored there. Do not use "
          "`git stash` (the scratch worktrees share one stash); to undo and redo your change use `git diff > /tmp/x-%s.diff; git apply -R /tmp/x-%s.diff; "
          "git apply /tmp/x-%s.diff`. The test `TestClockSuite` in pkg/clock asserts wall-clock durations and fails sporadically on a loaded machine: if it is "
          "the only failing package, re-run `go test ./pkg/clock` alone and count that result.") % (pid, pid, pid)
base = base.replace("produce 2 distinct changes", "produce 1 change (deliver it as m1 only; there is no m2 this round)").replace("For each change i in 1,2 deliver", "Deliver").replace("The two changes should be in different functions / break different clauses of the property where possible.", "")
print(base + extra)
