#!/usr/bin/env python3
"""usage: mkmeta.py <Cxx> <round> <summary> <needs_to_manifest> [<check_history>] [<caught_by,comma-separated>]
writes seeded/<Cxx>-r<round>m1/meta.json from the sub-agent's deliverables and tools/mutverify's verdict."""
import json, os, sys
p, rnd, summary, needs = sys.argv[1:5]
hist = sys.argv[5] if len(sys.argv) > 5 and sys.argv[5] else "caught by the check as it stood"
caught = sys.argv[6].split(",") if len(sys.argv) > 6 else [p]
d = "/verif/seeded/%s-r%sm1" % (p, rnd)
v = open(d + "/verified.txt").read().strip() if os.path.exists(d + "/verified.txt") else ""
demo = sorted(f for f in os.listdir(d) if f.startswith("zz_demo"))
m = {"id": "%s-r%sm1" % (p, rnd), "breaks_property": p, "round": int(rnd),
     "source": "independent sub-agent given only the property text, the list of all changes known so far for that property and a scratch worktree (no access to /verif)",
     "summary": summary, "needs_to_manifest": needs, "patch": "patch.diff", "demonstration": demo,
     "confirmed_by_me": {"how": "tools/mutverify in the scratch worktree: git apply, go build ./..., full unedited suite (pkg/clock re-run alone when it is the only failure), demo with patch (fails) and without (passes)", "result": v},
     "caught_by_checks": caught, "check_history": hist,
     "how_checked": "tools/mutcheck <patch> <property>: git -C /repo apply, ./check <property> --tier quick (exit 1 with VIOLATION and a concrete replay), git -C /repo checkout -- ."}
json.dump(m, open(d + "/meta.json", "w"), indent=1)
print("wrote", d + "/meta.json")
