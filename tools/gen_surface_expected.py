#!/usr/bin/env python3
# one-off helper: writes Proofs/SurfaceExpected.v from a generated Surface.v plus the annotations below
import re, sys
src = open(sys.argv[1]).read()
out = sys.argv[2]
def lst(name):
    m = re.search(r'Definition %s : list string := \[(.*?)\n\]\.' % name, src, re.S)
    return re.findall(r'"([^"]*)"', m.group(1))
cookie = lst('cookie_surface'); fwd = lst('forwarded_surface'); hdr = lst('header_surface'); cred = lst('credential_surface')

def cookie_class(e):
    f, fn, kind, arg = e.split('|')
    if f.startswith('pkg/sessions/tests/'):
        return 'TestSupport', 'helper package imported only by _test files'
    if kind == 'construct':
        return 'CallsConstructor', 'a call of MakeCookieFromOptions'
    if kind == 'literal':
        if fn == 'MakeCookieFromOptions': return 'TheConstructor', 'the constructor modelled in Model/Cookies.v'
        if fn == 'copyCookie': return 'CopyOfConstructed', 'field-by-field copy of a constructed cookie (split parts; name and value replaced)'
        if fn == 'validateCookieName': return 'NeverEmitted', 'configuration-time name check through Cookie.String, never written to a response'
    if kind == 'attr-write':
        return 'TheConstructor', 'Max-Age set inside the constructor'
    if kind == 'header-name':
        return 'NeverEmitted', 'flattenHeaders exempts Set-Cookie from comma-joining; it writes no cookie'
    if kind == 'set':
        if 'MakeCookieFromOptions' in arg: return 'EmitsConstructed', 'argument is the constructor call itself'
        if 'makeCookie' in arg: return 'EmitsConstructed', 'makeCookie returns MakeCookieFromOptions(..) (listed as a construct site)'
        if arg == 'cookie' and fn == 'csrf.SetCookie': return 'EmitsConstructed', 'bound to the constructor call two lines above'
        if arg == 'c' and fn == 'SessionStore.setSessionCookie': return 'EmitsConstructed', 'element of makeSessionCookie: the constructed cookie or its copyCookie parts'
        if arg == 'ticketCookie': return 'EmitsConstructed', 'result of ticket.makeCookie (a construct site)'
    return 'Unreviewed', 'NOT REVIEWED'

def fwd_class(e):
    f, fn, kind, arg = e.split('|')
    if kind in ('const', 'name') and fn == '<package>': return 'Declaration', 'constant declaration'
    if kind == 'const': return 'GuardedAccessor', 'read inside an accessor whose shape is checked (accessor_shapes)'
    if kind == 'name' and f == 'pkg/ip/realclientip.go': return 'ParserTable', 'header names the client-IP parser accepts at configuration time'
    if kind == 'name' and f == 'pkg/apis/options/options.go': return 'OptionDefault', 'default of real-client-ip-header'
    if kind == 'call' and f == 'pkg/ip/realclientip.go': return 'ThroughParser', 'nil parser (reverse-proxy off) returns before the header is read: Model/Bypass.v (get_client_ip)'
    if kind == 'call' and f == 'oauthproxy.go': return 'ThroughParser', 'passes p.realClientIPParser, which is nil unless reverse-proxy is on'
    if kind == 'call' and f == 'pkg/validation/options.go': return 'ThroughParser', 'logging hook installed under if o.ReverseProxy'
    if kind == 'parser' and 'under-flag=true' in arg: return 'ParserUnderFlag', 'parser created / stored / read only under if o.ReverseProxy'
    if kind == 'parser' and f == 'oauthproxy.go': return 'ParserCopied', 'copies the option value (nil unless set under the flag)'
    if kind == 'scope': return 'ScopeFromOption', 'the scope flag is the option'
    if kind == 'flag-init': return 'ScopeFromOption', 'NewScope stores its parameter'
    if kind == 'flag' and fn == 'IsProxied': return 'GuardedAccessor', 'IsProxied (shape checked)'
    if kind == 'flag': return 'OptionRead', 'reads the option at configuration time'
    return 'Unreviewed', 'NOT REVIEWED'

def hdr_class(e):
    f, fn, call, arg = e.split('|')
    if f == 'pkg/header/injector.go': return 'InjectorWrite', 'the injector modelled in Model/Headers.v: one value per configured source, under the configured name'
    if fn == 'stripHeaders': return 'StripDelete', 'deletes the configured, non-preserved names before injection (Model/Headers.v strip)'
    if fn == 'flattenHeaders': return 'Flatten', 'comma-joins the values of a name after injection (Model/Headers.v flatten)'
    if "'GAP-Auth'" in arg and f == 'oauthproxy.go': return 'GapAuthFromSession', 'response header with the session user / e-mail, only after authentication; not an operator-configured name'
    if "'GAP-Auth'" in arg: return 'GapAuthFromSession', 'overwrites any client GAP-Auth with the value set above (empty without a session)'
    if "'Content-Type'" in arg or fn == 'prepareNoCache': return 'FixedResponseHeader', 'fixed response header (content type, cache control): no identity'
    return 'UnreviewedHeader', 'NOT REVIEWED'

def cred_class(e):
    f, fn, kind, what = e.split('|')
    if f.startswith('pkg/sessions/tests/'): return 'CredTestSupport', 'helper package imported only by _test files'
    if kind == 'validate': return 'ValidateCall', 'a call of encryption.Validate (modelled: Model/Signed.v validate)'
    if kind == 'sign': return 'SignCall', 'a call of encryption.SignedValue (modelled: Model/Signed.v signed_value)'
    if fn == 'loadCookie': return 'ValidatedByCaller', 'the cookie (or its joined parts) is returned to SessionStore.Load, which validates it before decoding'
    if fn == 'decodeTicketFromRequest': return 'ValidatedInPlace', 'validated three lines below, before the ticket is decoded'
    if fn == 'LoadCSRFCookie': return 'ValidatedByCallee', 'candidates are filtered by name and handed to decodeCSRFCookie, which validates'
    if fn in ('SessionStore.Clear', 'SessionStore.setSessionCookie', 'responseCookies'): return 'NamesOnly', 'only cookie NAMES are used, to delete left-over parts'
    if fn == 'LoggingCSRFCookiesInOAuthCallback': return 'LoggingOnly', 'names are logged when the CSRF check failed; nothing is decided'
    return 'UnreviewedCred', 'NOT REVIEWED'

w = []
w.append('(* Hand-annotated expectation for Gen/Surface.v (C16, C18): each place of the non-test sources that\n'
         '   builds or emits a cookie, names a forwarding header, or touches the reverse-proxy flag, with the\n'
         '   reason it is covered by the modelled constructor / accessors.  The classification is a reviewed\n'
         '   annotation (trusted); what is CHECKED is that the regenerated inventory equals this list, so a new\n'
         '   site re-opens the obligation. *)')
w.append('From Coq Require Import String List.\nImport ListNotations.\nOpen Scope string_scope.\n')
w.append('Inductive cookie_site := TheConstructor | CallsConstructor | EmitsConstructed | CopyOfConstructed | NeverEmitted | TestSupport | UnreviewedCookie.')
w.append('Inductive cred_site := ValidateCall | SignCall | ValidatedByCaller | ValidatedInPlace | ValidatedByCallee | NamesOnly | LoggingOnly | CredTestSupport | UnreviewedCred.')
w.append('Inductive header_site := InjectorWrite | StripDelete | Flatten | GapAuthFromSession | FixedResponseHeader | UnreviewedHeader.')
w.append('Inductive forward_site := Declaration | GuardedAccessor | ParserTable | OptionDefault | ThroughParser | ParserUnderFlag | ParserCopied | ScopeFromOption | OptionRead | UnreviewedForward.\n')
def emit(name, ty, items, cls, unre):
    w.append('Definition %s : list (string * %s) := [' % (name, ty))
    for i, e in enumerate(items):
        c, why = cls(e)
        if c == 'Unreviewed': c = unre
        w.append('  ("%s", %s)%s  (* %s *)' % (e, c, ';' if i < len(items)-1 else '', why))
    w.append('].\n')
emit('expected_cookie_surface', 'cookie_site', cookie, cookie_class, 'UnreviewedCookie')
emit('expected_forwarded_surface', 'forward_site', fwd, fwd_class, 'UnreviewedForward')
emit('expected_credential_surface', 'cred_site', cred, cred_class, 'UnreviewedCred')
emit('expected_header_surface', 'header_site', hdr, lambda e: (lambda c: (c[0] if c[0] != 'UnreviewedHeader' else 'Unreviewed', c[1]))(hdr_class(e)), 'UnreviewedHeader')
w.append('Definition cookie_reviewed (c : cookie_site) : bool := match c with UnreviewedCookie => false | _ => true end.')
w.append('Definition forward_reviewed (c : forward_site) : bool := match c with UnreviewedForward => false | _ => true end.')
w.append('Definition cred_reviewed (c : cred_site) : bool := match c with UnreviewedCred => false | _ => true end.')
w.append('Definition header_reviewed (c : header_site) : bool := match c with UnreviewedHeader => false | _ => true end.')
w.append('(* an emission site hands the response a cookie that came out of the constructor *)')
w.append('Definition is_emission (e : string * cookie_site) : bool := match snd e with EmitsConstructed => true | _ => false end.')
open(out, 'w').write('\n'.join(w) + '\n')
