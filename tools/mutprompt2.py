#!/usr/bin/env python3
"""Round-2 prompt: like mutprompt.py but tells the agent which changes are already known
(descriptions only) so that it produces different ones."""
import json, sys, os, glob
pid = sys.argv[1]
wt = "/tmp/mut2-" + pid
known = []
for d in sorted(glob.glob("/verif/seeded/%s-m*" % pid)):
    m = json.load(open(os.path.join(d, "meta.json")))
    known.append(m["summary"][:300])
base = os.popen("python3 /verif/tools/mutprompt.py %s" % pid).read().replace("/tmp/mut-" + pid, wt)
extra = "\n\nAlready known changes for this property (do NOT repeat these or close variants; pick other functions, other clauses of the property, other packages where possible):\n" + "\n".join("- " + k for k in known)
extra += "\n\nPut a stub `out/go.mod` (content: `module out`) in the out directory so that `go build ./...` ignores the demo files stored there. Do not use `git stash` (the scratch worktrees share one stash); to undo and redo your change use `git diff > /tmp/x.diff; git apply -R /tmp/x.diff; git apply /tmp/x.diff`. Prefer changes whose effect needs an input, configuration or sequence that a routine test sweep over 'typical' values would NOT contain (boundary values, rarely used options, particular orderings, a second request after a first one, error paths of helpers)."
print(base + extra)
