(* S-expressions used between the Go drivers, the extracted model and the orchestrator.
   atoms: decimal integers, symbols (letters, digits, underscore), byte strings in double
   quotes written in hex. *)
type t = I of string | Y of string | S of string | L of t list

exception Parse_error of string

let parse (s : string) : t =
  let n = String.length s in
  let pos = ref 0 in
  let peek () = if !pos < n then Some s.[!pos] else None in
  let rec skip () = match peek () with Some (' ' | '\t' | '\n') -> incr pos; skip () | _ -> () in
  let hexv c = match c with
    | '0'..'9' -> Char.code c - 48
    | 'a'..'f' -> Char.code c - 87
    | 'A'..'F' -> Char.code c - 55
    | _ -> raise (Parse_error "bad hex") in
  let rec value () =
    skip ();
    match peek () with
    | None -> raise (Parse_error "unexpected end")
    | Some '(' ->
      incr pos;
      let items = ref [] in
      let rec loop () =
        skip ();
        match peek () with
        | Some ')' -> incr pos
        | None -> raise (Parse_error "unclosed list")
        | _ -> items := value () :: !items; loop () in
      loop ();
      L (List.rev !items)
    | Some '"' ->
      incr pos;
      let b = Buffer.create 16 in
      let rec loop () =
        match peek () with
        | Some '"' -> incr pos
        | Some c1 ->
          incr pos;
          (match peek () with
           | Some c2 -> incr pos; Buffer.add_char b (Char.chr (hexv c1 * 16 + hexv c2)); loop ()
           | None -> raise (Parse_error "odd hex"))
        | None -> raise (Parse_error "unclosed string") in
      loop ();
      S (Buffer.contents b)
    | Some c when c = '-' || (c >= '0' && c <= '9') ->
      let st = !pos in
      incr pos;
      while (match peek () with Some ('0'..'9') -> true | _ -> false) do incr pos done;
      I (String.sub s st (!pos - st))
    | Some _ ->
      let st = !pos in
      while (match peek () with
          | Some ('a'..'z' | 'A'..'Z' | '0'..'9' | '_') -> true | _ -> false) do incr pos done;
      if !pos = st then raise (Parse_error (Printf.sprintf "bad char at %d" st));
      Y (String.sub s st (!pos - st))
  in
  let v = value () in
  skip ();
  if !pos <> n then raise (Parse_error "trailing input");
  v

let rec print (b : Buffer.t) (v : t) : unit =
  match v with
  | I s | Y s -> Buffer.add_string b s
  | S s ->
    Buffer.add_char b '"';
    String.iter (fun c -> Buffer.add_string b (Printf.sprintf "%02x" (Char.code c))) s;
    Buffer.add_char b '"'
  | L l ->
    Buffer.add_char b '(';
    List.iteri (fun i x -> if i > 0 then Buffer.add_char b ' '; print b x) l;
    Buffer.add_char b ')'

let to_string v = let b = Buffer.create 64 in print b v; Buffer.contents b
