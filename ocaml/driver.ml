(* Reads case lines  id \t label \t flags \t impl-sexp \t call-sexp  on stdin and prints
   id \t model-sexp  for each, where call-sexp = (function arg ...) names an adapter below. *)
open Sx
open Conv

let adapters : (string, Sx.t list -> Sx.t) Hashtbl.t = Hashtbl.create 64
let reg name f = Hashtbl.replace adapters name f

let () = Adapters.register reg

let () =
  let errors = ref 0 in
  (try
     while true do
       let line = input_line stdin in
       match String.split_on_char '\t' line with
       | [id; _label; _flags; _impl; call] ->
         let out =
           try
             (match Sx.parse call with
              | L (Y fn :: args) ->
                (match Hashtbl.find_opt adapters fn with
                 | Some f -> Sx.to_string (f args)
                 | None -> incr errors; "(driver_error unknown_function)")
              | _ -> incr errors; "(driver_error bad_call)")
           with
           | Sx.Parse_error m -> incr errors; "(driver_error parse " ^ String.map (fun c -> if c = ' ' then '_' else c) m ^ ")"
           | Conv.Bad m -> incr errors; "(driver_error conv " ^ String.map (fun c -> if c = ' ' || c = '(' || c = ')' || c = '"' then '_' else c) m ^ ")"
         in
         print_string id; print_char '\t'; print_string out; print_newline ()
       | _ -> ()
     done
   with End_of_file -> ());
  if !errors > 0 then exit 3
