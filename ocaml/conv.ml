(* conversions between S-expressions and the extracted Coq datatypes *)
open BinNums
open Sx

exception Bad of string

let rec pos_of_int (i : int) : positive =
  if i = 1 then Coq_xH
  else if i land 1 = 1 then Coq_xI (pos_of_int (i lsr 1))
  else Coq_xO (pos_of_int (i lsr 1))

let n_of_int (i : int) : coq_N = if i = 0 then N0 else Npos (pos_of_int i)

let rec int_of_pos (p : positive) : int =
  match p with Coq_xH -> 1 | Coq_xO q -> 2 * int_of_pos q | Coq_xI q -> 2 * int_of_pos q + 1

let int_of_n (x : coq_N) : int = match x with N0 -> 0 | Npos p -> int_of_pos p

let byte_tab : coq_N array = Array.init 256 n_of_int

(* OCaml string <-> Coq str (list N) *)
let str_of_string (s : string) : coq_N list =
  let r = ref [] in
  for i = String.length s - 1 downto 0 do r := byte_tab.(Char.code s.[i]) :: !r done;
  !r

let string_of_str (l : coq_N list) : string =
  let b = Buffer.create 64 in
  List.iter (fun x ->
      let v = int_of_n x in
      if v > 255 then raise (Bad "non-byte in model output");
      Buffer.add_char b (Char.chr v)) l;
  Buffer.contents b

(* decimal text <-> Z through the model's own digit functions *)
let z_of_text (t : string) : coq_Z =
  let neg = String.length t > 0 && t.[0] = '-' in
  let ds = if neg then String.sub t 1 (String.length t - 1) else t in
  let v = Bytes0.digits_val (str_of_string ds) in
  if neg then BinInt.Z.opp v else v

let text_of_z (v : coq_Z) : string = string_of_str (Bytes0.itoa v)

let rec nat_of_int (i : int) : Datatypes.nat = if i <= 0 then Datatypes.O else Datatypes.S (nat_of_int (i - 1))
let rec int_of_nat (x : Datatypes.nat) : int = match x with Datatypes.O -> 0 | Datatypes.S y -> 1 + int_of_nat y

(* ---- readers ---- *)
let rd_str = function S s -> str_of_string s | v -> raise (Bad ("expected string, got " ^ to_string v))
let rd_z = function I t -> z_of_text t | v -> raise (Bad ("expected int, got " ^ to_string v))
let rd_int = function I t -> int_of_string t | v -> raise (Bad ("expected int, got " ^ to_string v))
let rd_n v = n_of_int (rd_int v)
let rd_nat v = nat_of_int (rd_int v)
let rd_bool = function Y "true" -> true | Y "false" -> false | v -> raise (Bad ("expected bool, got " ^ to_string v))
let rd_list f = function L l -> List.map f l | v -> raise (Bad ("expected list, got " ^ to_string v))
let rd_pair f g = function L [a; b] -> (f a, g b) | v -> raise (Bad ("expected pair, got " ^ to_string v))
let rd_opt f = function Y "none" -> None | L [Y "some"; v] -> Some (f v) | v -> raise (Bad ("expected option, got " ^ to_string v))
let rd_sym = function Y s -> s | v -> raise (Bad ("expected symbol, got " ^ to_string v))

(* ---- writers ---- *)
let wr_str l = S (string_of_str l)
let wr_z v = I (text_of_z v)
let wr_int i = I (string_of_int i)
let wr_n v = I (string_of_int (int_of_n v))
let wr_nat v = I (string_of_int (int_of_nat v))
let wr_bool b = Y (if b then "true" else "false")
let wr_list f l = L (List.map f l)
let wr_pair f g (a, b) = L [f a; g b]
let wr_opt f = function None -> Y "none" | Some v -> L [Y "some"; f v]

(* a MAC / cipher / hash oracle given as a finite table; the default is not a byte string,
   so it never compares equal to anything decoded from input *)
let table_fun (tab : (coq_N list * coq_N list) list) : coq_N list -> coq_N list =
  let h = Hashtbl.create 16 in
  List.iter (fun (k, v) -> Hashtbl.replace h (string_of_str k) v) tab;
  fun k -> match Hashtbl.find_opt h (string_of_str k) with
    | Some v -> v
    | None -> [n_of_int 256]

let table_opt (tab : (coq_N list * coq_N list) list) : coq_N list -> coq_N list option =
  let h = Hashtbl.create 16 in
  List.iter (fun (k, v) -> Hashtbl.replace h (string_of_str k) v) tab;
  fun k -> Hashtbl.find_opt h (string_of_str k)
