(* one adapter per model entry point: S-expression arguments -> extracted function -> S-expression *)
open Sx
open Conv

let rd_table v = rd_list (rd_pair rd_str rd_str) v

let register (reg : string -> (Sx.t list -> Sx.t) -> unit) : unit =
  (* ---- Lib ---- *)
  reg "b64_decode" (function
      | [alpha; padded; x] ->
        let a = (match rd_sym alpha with "std" -> Base64.Std | _ -> Base64.Url) in
        wr_opt wr_str (Base64.decode a (rd_bool padded) (rd_str x))
      | _ -> raise (Bad "b64_decode arity"));
  reg "b64_encode" (function
      | [alpha; padded; x] ->
        let a = (match rd_sym alpha with "std" -> Base64.Std | _ -> Base64.Url) in
        wr_str (Base64.encode a (rd_bool padded) (rd_str x))
      | _ -> raise (Bad "b64_encode arity"));
  reg "atoi" (function
      | [x] -> wr_opt wr_z (Bytes0.atoi (rd_str x))
      | _ -> raise (Bad "atoi arity"));
  (* ---- Signed ---- *)
  reg "signed_value" (function
      | [macs; name; value; now_s] ->
        wr_str (Signed.signed_value (table_fun (rd_table macs)) (rd_str name) (rd_str value) (rd_z now_s))
      | _ -> raise (Bad "signed_value arity"));
  (* validate evaluated at the clock readings taken before and after the implementation call:
     when the two answers differ the case is reported as ambiguous *)
  reg "validate" (function
      | [macs; name; value; now0; now1; expire] ->
        let m = table_fun (rd_table macs) in
        let f now = Signed.validate m (rd_str name) (rd_str value) (rd_z now) (rd_z expire) in
        let a = f now0 and b = f now1 in
        if a = b then wr_opt (wr_pair wr_str wr_z) a else Y "ambiguous"
      | _ -> raise (Bad "validate arity"));
  ()
