(* one adapter per model entry point: S-expression arguments -> extracted function -> S-expression *)
open Sx
open Conv

let rd_table v = rd_list (rd_pair rd_str rd_str) v

let rd_ccfg = function
  | L [name; path; domains; secure; httponly; samesite; expire] ->
    { Cookies.c_name = rd_str name; c_path = rd_str path; c_domains = rd_list rd_str domains;
      c_secure = rd_bool secure; c_httponly = rd_bool httponly; c_samesite = rd_n samesite;
      c_expire_ns = rd_z expire }
  | v -> raise (Bad ("bad cookie cfg " ^ to_string v))

let rd_cookies v = rd_list (rd_pair rd_str rd_str) v
let wr_headers l = wr_list (fun c -> wr_str (Cookies.cookie_string c)) l

let register (reg : string -> (Sx.t list -> Sx.t) -> unit) : unit =
  (* ---- Lib ---- *)
  reg "b64_decode" (function
      | [alpha; padded; x] ->
        let a = (match rd_sym alpha with "std" -> Base64.Std | _ -> Base64.Url) in
        wr_opt wr_str (Base64.decode a (rd_bool padded) (rd_str x))
      | _ -> raise (Bad "b64_decode arity"));
  reg "b64_encode" (function
      | [alpha; padded; x] ->
        let a = (match rd_sym alpha with "std" -> Base64.Std | _ -> Base64.Url) in
        wr_str (Base64.encode a (rd_bool padded) (rd_str x))
      | _ -> raise (Bad "b64_encode arity"));
  reg "atoi" (function
      | [x] -> wr_opt wr_z (Bytes0.atoi (rd_str x))
      | _ -> raise (Bad "atoi arity"));
  (* ---- Signed ---- *)
  reg "signed_value" (function
      | [macs; name; value; now_s] ->
        wr_str (Signed.signed_value (table_fun (rd_table macs)) (rd_str name) (rd_str value) (rd_z now_s))
      | _ -> raise (Bad "signed_value arity"));
  (* validate evaluated at the clock readings taken before and after the implementation call:
     when the two answers differ the case is reported as ambiguous *)
  reg "validate" (function
      | [macs; name; value; now0; now1; expire] ->
        let m = table_fun (rd_table macs) in
        let f now = Signed.validate m (rd_str name) (rd_str value) (rd_z now) (rd_z expire) in
        let a = f now0 and b = f now1 in
        if a = b then wr_opt (wr_pair wr_str wr_z) a else Y "ambiguous"
      | _ -> raise (Bad "validate arity"));
  (* ---- CookieStore ---- *)
  reg "cs_save" (function
      | [macs; cfg; host; cookies; value; created] ->
        wr_opt wr_headers
          (CookieStore.store_save (table_fun (rd_table macs)) (rd_ccfg cfg) (rd_str host) (rd_cookies cookies)
             (rd_str value) (rd_z created))
      | _ -> raise (Bad "cs_save arity"));
  reg "cs_load" (function
      | [macs; cfg; cookies; now0; now1] ->
        let m = table_fun (rd_table macs) in
        let f now = CookieStore.store_load m (rd_ccfg cfg) (rd_cookies cookies) (rd_z now) in
        let a = f now0 and b = f now1 in
        if a = b then wr_opt (wr_pair wr_str wr_z) a else Y "ambiguous"
      | _ -> raise (Bad "cs_load arity"));
  reg "cs_clear" (function
      | [cfg; host; cookies; already] ->
        wr_headers (CookieStore.store_clear (rd_ccfg cfg) (rd_str host) (rd_cookies cookies) (rd_list rd_str already))
      | _ -> raise (Bad "cs_clear arity"));
  reg "split_host_port" (function
      | [x] -> wr_opt (wr_pair wr_str wr_str) (NetAddr.split_host_port (rd_str x))
      | _ -> raise (Bad "split_host_port arity"));
  ()
