(* one adapter per model entry point: S-expression arguments -> extracted function -> S-expression *)
open Sx
open Conv

let rd_table v = rd_list (rd_pair rd_str rd_str) v

let rd_ccfg = function
  | L [name; path; domains; secure; httponly; samesite; expire] ->
    { Cookies.c_name = rd_str name; c_path = rd_str path; c_domains = rd_list rd_str domains;
      c_secure = rd_bool secure; c_httponly = rd_bool httponly; c_samesite = rd_n samesite;
      c_expire_ns = rd_z expire }
  | v -> raise (Bad ("bad cookie cfg " ^ to_string v))

let rd_cookies v = rd_list (rd_pair rd_str rd_str) v

let rd_hmap v = rd_list (rd_pair rd_str (rd_list rd_str)) v
let rd_hcfgs v = rd_list (function
    | L [name; pres; vals] ->
      { Headers.h_name = rd_str name; h_preserve = rd_bool pres;
        h_values = rd_list (function
            | L [Y "secret"; x] -> Headers.SecretV (rd_str x)
            | L [Y "claim"; c; p; pw] -> Headers.ClaimV (rd_str c, rd_str p, rd_opt rd_str pw)
            | v -> raise (Bad ("bad header value " ^ to_string v))) vals }
    | v -> raise (Bad ("bad header entry " ^ to_string v))) v
let rd_csession v = rd_opt (function
    | L [at; idt; rt; em; us; gs; pu; cr; ex] ->
      { Headers.c_access = rd_str at; c_idtoken = rd_str idt; c_refresh = rd_str rt; c_email = rd_str em; c_user = rd_str us;
        c_groups = rd_list rd_str gs; c_pref = rd_str pu; c_created = rd_opt rd_str cr; c_expires = rd_opt rd_str ex }
    | v -> raise (Bad ("bad claim session " ^ to_string v))) v

let rec rd_json = function
  | L [Y "null"] -> Oidc.JNull
  | L [Y "bool"; b] -> Oidc.JBool (rd_bool b)
  | L [Y "num"; n] -> Oidc.JNum (rd_z n)
  | L [Y "str"; x] -> Oidc.JStr (rd_str x)
  | L (Y "arr" :: l) -> Oidc.JArr (List.map rd_json l)
  | L (Y "obj" :: l) -> Oidc.JObj (List.map (function L [k; v] -> (rd_str k, rd_json v) | v -> raise (Bad ("bad member " ^ to_string v))) l)
  | v -> raise (Bad ("bad json " ^ to_string v))
let rd_jobj v = (match rd_json v with Oidc.JObj o -> o | _ -> raise (Bad "expected json object"))
let rd_ocfg = function
  | L [iss; skipiss; cid; extra; audc; userc; emailc; groupsc; allowu; skipn] ->
    { Oidc.g_issuer = rd_str iss; g_skip_issuer = rd_bool skipiss; g_client_id = rd_str cid;
      g_extra_audiences = rd_list rd_str extra; g_audience_claims = rd_list rd_str audc;
      g_user_claim = rd_str userc; g_email_claim = rd_str emailc; g_groups_claim = rd_str groupsc;
      g_allow_unverified = rd_bool allowu; g_skip_nonce = rd_bool skipn }
  | v -> raise (Bad ("bad oidc cfg " ^ to_string v))
let rd_token = function
  | L [sig_ok; iss; exp; claims] ->
    { Oidc.t_sig_ok = rd_bool sig_ok; t_iss = rd_str iss; t_exp = rd_opt rd_z exp; t_claims = rd_jobj claims }
  | v -> raise (Bad ("bad token " ^ to_string v))
let rd_identity = function
  | L [u; e; g; p] -> { Oidc.i_user = rd_str u; i_email = rd_str e; i_groups = rd_list rd_str g; i_pref = rd_str p }
  | v -> raise (Bad ("bad identity " ^ to_string v))
let wr_identity (i : Oidc.identity) = L [wr_str i.Oidc.i_user; wr_str i.Oidc.i_email; wr_list wr_str i.Oidc.i_groups; wr_str i.Oidc.i_pref]

let rd_bign v = (match rd_z v with BinNums.Z0 -> BinNums.N0 | BinNums.Zpos p -> BinNums.Npos p | BinNums.Zneg _ -> raise (Bad "negative address"))

let rd_breq = function
  | L [m; uri; fwd; prox; remote; iph] ->
    { Bypass.b_method = rd_str m; b_request_uri = rd_str uri; b_fwd_uri = rd_str fwd; b_proxied = rd_bool prox;
      b_remote_addr = rd_str remote; b_ip_header = rd_str iph }
  | v -> raise (Bad ("bad breq " ^ to_string v))
let wr_headers l = wr_list (fun c -> wr_str (Cookies.cookie_string c)) l

let register (reg : string -> (Sx.t list -> Sx.t) -> unit) : unit =
  (* ---- Lib ---- *)
  reg "b64_decode" (function
      | [alpha; padded; x] ->
        let a = (match rd_sym alpha with "std" -> Base64.Std | _ -> Base64.Url) in
        wr_opt wr_str (Base64.decode a (rd_bool padded) (rd_str x))
      | _ -> raise (Bad "b64_decode arity"));
  reg "b64_encode" (function
      | [alpha; padded; x] ->
        let a = (match rd_sym alpha with "std" -> Base64.Std | _ -> Base64.Url) in
        wr_str (Base64.encode a (rd_bool padded) (rd_str x))
      | _ -> raise (Bad "b64_encode arity"));
  reg "atoi" (function
      | [x] -> wr_opt wr_z (Bytes0.atoi (rd_str x))
      | _ -> raise (Bad "atoi arity"));
  (* ---- Signed ---- *)
  reg "signed_value" (function
      | [macs; name; value; now_s] ->
        wr_str (Signed.signed_value (table_fun (rd_table macs)) (rd_str name) (rd_str value) (rd_z now_s))
      | _ -> raise (Bad "signed_value arity"));
  (* validate evaluated at the clock readings taken before and after the implementation call:
     when the two answers differ the case is reported as ambiguous *)
  reg "validate" (function
      | [macs; name; value; now0; now1; expire] ->
        let m = table_fun (rd_table macs) in
        let f now = Signed.validate m (rd_str name) (rd_str value) (rd_z now) (rd_z expire) in
        let a = f now0 and b = f now1 in
        if a = b then wr_opt (wr_pair wr_str wr_z) a else Y "ambiguous"
      | _ -> raise (Bad "validate arity"));
  (* ---- CookieStore ---- *)
  reg "cs_save" (function
      | [macs; cfg; host; cookies; value; created] ->
        wr_opt wr_headers
          (CookieStore.store_save (table_fun (rd_table macs)) (rd_ccfg cfg) (rd_str host) (rd_cookies cookies)
             (rd_str value) (rd_z created))
      | _ -> raise (Bad "cs_save arity"));
  reg "cs_load" (function
      | [macs; cfg; cookies; now0; now1] ->
        let m = table_fun (rd_table macs) in
        let f now = CookieStore.store_load m (rd_ccfg cfg) (rd_cookies cookies) (rd_z now) in
        let a = f now0 and b = f now1 in
        if a = b then wr_opt (wr_pair wr_str wr_z) a else Y "ambiguous"
      | _ -> raise (Bad "cs_load arity"));
  reg "cs_load_ok" (function
      | [macs; cfg; cookies; now0; now1] ->
        let m = table_fun (rd_table macs) in
        let f now = CookieStore.store_load m (rd_ccfg cfg) (rd_cookies cookies) (rd_z now) <> None in
        let a = f now0 and b = f now1 in
        if a = b then wr_bool a else Y "ambiguous"
      | _ -> raise (Bad "cs_load_ok arity"));
  (* the store key Manager.Load reads, if any *)
  reg "ticket_key" (function
      | [macs; cfg; cookies; now0; now1] ->
        let m = table_fun (rd_table macs) in
        let f now = (match Ticket.ticket_from_request m (rd_ccfg cfg) (rd_cookies cookies) (rd_z now) with
            | Some (id, _) -> Some id | None -> None) in
        let a = f now0 and b = f now1 in
        if a = b then wr_opt wr_str a else Y "ambiguous"
      | _ -> raise (Bad "ticket_key arity"));
  reg "cs_clear" (function
      | [cfg; host; cookies; already] ->
        wr_headers (CookieStore.store_clear (rd_ccfg cfg) (rd_str host) (rd_cookies cookies) (rd_list rd_str already))
      | _ -> raise (Bad "cs_clear arity"));
  (* a whole browser history through the jar model: the (name, value) pairs the jar holds at the end, sorted *)
  reg "jar_run" (function
      | [macs; cfg; host; ops] ->
        let ops = rd_list (function
            | L [Y "save"; v; t] -> JarSession.OpSave (rd_str v, rd_z t)
            | L [Y "clear"] -> JarSession.OpClear
            | v -> raise (Bad ("bad jar op " ^ to_string v))) ops in
        (match JarSession.jar_run (table_fun (rd_table macs)) (rd_ccfg cfg) (rd_str host) [] ops with
         | None -> Y "none"
         | Some j ->
           let cs = List.map (fun (n, v) -> (string_of_str n, string_of_str v)) (Jar.jar_cookies j) in
           let cs = List.sort compare cs in
           L [Y "some"; L (List.map (fun (n, v) -> L [S n; S v]) cs)])
      | _ -> raise (Bad "jar_run arity"));
  reg "make_cookie_string" (function
      | [cfg; host; name; value; exp] ->
        wr_str (Cookies.cookie_string (Cookies.make_cookie (rd_ccfg cfg) (rd_str host) (rd_str name) (rd_str value) (rd_z exp)))
      | _ -> raise (Bad "make_cookie_string arity"));
  (* ---- Bypass ---- *)
  reg "parse_route" (function
      | [spec] -> let ((m, n), p) = Bypass.parse_route (rd_str spec) in L [wr_str m; wr_bool n; wr_str p]
      | _ -> raise (Bad "parse_route arity"));
  reg "allowed_route" (function
      | [routes; mt; pt; rq] ->
        let routes = rd_list (function
            | L [m; n; i] -> { Bypass.r_method = rd_str m; r_negate = rd_bool n; r_regex = rd_nat i }
            | v -> raise (Bad ("bad route " ^ to_string v))) routes in
        let mtab = Hashtbl.create 8 in
        List.iter (function
            | L [i; p; b] -> Hashtbl.replace mtab (rd_int i, string_of_str (rd_str p)) (rd_bool b)
            | v -> raise (Bad ("bad match entry " ^ to_string v))) (match mt with L l -> l | _ -> []);
        let matches i p = (match Hashtbl.find_opt mtab (int_of_nat i, string_of_str p) with
            | Some b -> b | None -> raise (Bad "regex oracle asked about an unlisted path")) in
        let ptab = Hashtbl.create 4 in
        List.iter (function
            | L [u; r] -> Hashtbl.replace ptab (string_of_str (rd_str u)) (rd_opt rd_str r)
            | v -> raise (Bad ("bad parse entry " ^ to_string v))) (match pt with L l -> l | _ -> []);
        let parse u = (match Hashtbl.find_opt ptab (string_of_str u) with
            | Some r -> r | None -> raise (Bad "uri oracle asked about an unlisted uri")) in
        wr_bool (Bypass.is_allowed_route matches parse routes (rd_breq rq))
      | _ -> raise (Bad "allowed_route arity"));
  reg "netset_has" (function
      | [nets; ipv] ->
        let nets = rd_list (function
            | L [a; o] -> { Bypass.n_addr = rd_bign a; n_ones = rd_n o }
            | v -> raise (Bad ("bad net " ^ to_string v))) nets in
        wr_bool (Bypass.set_has (Bypass.build_set nets) (rd_bign ipv))
      | _ -> raise (Bad "netset_has arity"));
  reg "net_canonical" (function
      | [a; o] -> wr_bool (Bypass.canonical { Bypass.n_addr = rd_bign a; n_ones = rd_n o })
      | _ -> raise (Bad "net_canonical arity"));
  reg "trusted_ip" (function
      | [nets; pt; use_header; rq] ->
        let nets = rd_list (function
            | L [a; o] -> { Bypass.n_addr = rd_bign a; n_ones = rd_n o }
            | v -> raise (Bad ("bad net " ^ to_string v))) nets in
        let ptab = Hashtbl.create 4 in
        List.iter (function
            | L [u; r] -> Hashtbl.replace ptab (string_of_str (rd_str u)) (rd_opt rd_bign r)
            | v -> raise (Bad ("bad parse entry " ^ to_string v))) (match pt with L l -> l | _ -> []);
        let parse u = (match Hashtbl.find_opt ptab (string_of_str u) with
            | Some r -> r | None -> None) in
        wr_bool (Bypass.is_trusted_ip parse (Bypass.build_set nets) (rd_bool use_header) (rd_breq rq))
      | _ -> raise (Bad "trusted_ip arity"));
  (* ---- Authz ---- *)
  reg "email_valid" (function
      | [domains; file; email] ->
        wr_bool (Authz.email_valid (rd_list rd_str domains) (rd_list rd_str file) (rd_str email))
      | _ -> raise (Bad "email_valid arity"));
  reg "auth_only" (function
      | [vg; vd; ve; sess] ->
        let s = rd_opt (function
            | L [em; gs] -> { Authz.a_email = rd_str em; a_groups = rd_list rd_str gs }
            | v -> raise (Bad ("bad session " ^ to_string v))) sess in
        wr_bool (Authz.auth_only_authorize (rd_list rd_str vg) (rd_list rd_str vd) (rd_list rd_str ve) s)
      | _ -> raise (Bad "auth_only arity"));
  reg "endpoint_allowed" (function
      | [h; p; allowed] -> wr_bool (Authz.is_endpoint_allowed (rd_str h) (rd_str p) (rd_list rd_str allowed))
      | _ -> raise (Bad "endpoint_allowed arity"));
  (* ---- Headers ---- *)
  reg "request_headers" (function
      | [cfgs; sess; hmap; names] ->
        let h = Headers.request_headers (rd_csession sess) (rd_hcfgs cfgs) (rd_hmap hmap) in
        wr_list (fun n -> L [wr_str n; wr_list wr_str (Headers.hget n h)]) (rd_list rd_str names)
      | _ -> raise (Bad "request_headers arity"));
  reg "response_headers" (function
      | [cfgs; sess; hmap; names] ->
        let h = Headers.response_headers (rd_csession sess) (rd_hcfgs cfgs) (rd_hmap hmap) in
        wr_list (fun n -> L [wr_str n; wr_list wr_str (Headers.hget n h)]) (rd_list rd_str names)
      | _ -> raise (Bad "response_headers arity"));
  (* ---- Redirect ---- *)
  reg "valid_redirects" (function
      | [wls; str; parse] ->
        let r = rd_str str in
        let pr = rd_opt (rd_pair rd_str rd_str) parse in
        let up x = if x = r then pr else None in
        wr_list (fun wl -> wr_bool (Redirect.is_valid_redirect up (rd_list rd_str wl) r)) (match wls with L l -> l | _ -> [])
      | _ -> raise (Bad "valid_redirects arity"));
  reg "get_redirect" (function
      | [pp; wl; pt; rq] ->
        let ptab = Hashtbl.create 4 in
        List.iter (function
            | L [u; r] -> Hashtbl.replace ptab (string_of_str (rd_str u)) (rd_opt (rd_pair rd_str rd_str) r)
            | v -> raise (Bad ("bad parse entry " ^ to_string v))) (match pt with L l -> l | _ -> []);
        let up u = (match Hashtbl.find_opt ptab (string_of_str u) with
            | Some r -> r | None -> raise (Bad ("url oracle asked about unlisted " ^ String.escaped (string_of_str u)))) in
        let q = (match rq with
            | L [rd; xa; prox; host; scheme; uri; xfh; xfp; xfu] ->
              { Redirect.q_rd = rd_str rd; q_xauth = rd_str xa; q_proxied = rd_bool prox; q_host = rd_str host;
                q_scheme = rd_str scheme; q_uri = rd_str uri; q_xf_host = rd_str xfh; q_xf_proto = rd_str xfp; q_xf_uri = rd_str xfu }
            | v -> raise (Bad ("bad rreq " ^ to_string v))) in
        wr_str (Redirect.get_redirect up (rd_str pp) (rd_list rd_str wl) q)
      | _ -> raise (Bad "get_redirect arity"));
  reg "oauth_redirect_uri" (function
      | [rel; cu; ch; cp; sec; rq] ->
        let q = (match rq with
            | L [rd; xa; prox; host; scheme; uri; xfh; xfp; xfu] ->
              { Redirect.q_rd = rd_str rd; q_xauth = rd_str xa; q_proxied = rd_bool prox; q_host = rd_str host;
                q_scheme = rd_str scheme; q_uri = rd_str uri; q_xf_host = rd_str xfh; q_xf_proto = rd_str xfp; q_xf_uri = rd_str xfu }
            | v -> raise (Bad ("bad rreq " ^ to_string v))) in
        wr_str (Redirect.oauth_redirect_uri (rd_bool rel) (rd_str cu) (rd_bool ch) (rd_str cp) (rd_bool sec) q)
      | _ -> raise (Bad "oauth_redirect_uri arity"));
  (* SignOut over the ticket store *)
  reg "sign_out_ticket" (function
      | [macs; cfg; host; cookies; now0; now1; del_ok] ->
        let m = table_fun (rd_table macs) in
        let f now = SignOut.sign_out_ticket_store m (rd_ccfg cfg) (rd_str host) (rd_cookies cookies) (rd_z now) (rd_bool del_ok) (str_of_string "/") in
        let a = f now0 and b = f now1 in
        if a <> b then Y "ambiguous" else
          let (o, key) = a in
          (match o with
           | SignOut.SoRedirect (_, cs) -> L [wr_bool true; wr_opt wr_str key; wr_headers cs]
           | SignOut.SoError cs -> L [wr_bool false; wr_opt wr_str key; wr_headers cs])
      | _ -> raise (Bad "sign_out_ticket arity"));
  (* ---- Refresh ---- *)
  reg "refresh_run" (function
      | [n; sched] ->
        let st = Refresh.run Refresh.init (rd_list rd_nat sched) in
        let res t = (match st.Refresh.pcs (nat_of_int t) with
            | Refresh.PDone (Refresh.Served v) -> L [Y "served"; wr_nat v]
            | Refresh.PDone Refresh.Denied -> Y "denied"
            | _ -> Y "running") in
        L [wr_nat st.Refresh.succ; wr_nat st.Refresh.reuse; L (List.init (rd_int n) res)]
      | _ -> raise (Bad "refresh_run arity"));
  reg "seq_refresh" (function
      | [stale; has_rt; ok; vo; vn] ->
        let ((o, called), cleared) = Refresh.seq_refresh (rd_bool stale) (rd_bool has_rt) (rd_bool ok) (rd_bool vo) (rd_bool vn) in
        L [Y (match o with Refresh.SeqServedOld -> "old" | Refresh.SeqServedNew -> "new" | Refresh.SeqUnauth -> "unauth");
           wr_bool called; wr_bool cleared]
      | _ -> raise (Bad "seq_refresh arity"));
  (* ---- StoreFaults ---- *)
  reg "store_flow" (function
      | [scn; plan] ->
        let tab = Hashtbl.create 4 in
        List.iter (function
            | L [i; Y k] ->
              Hashtbl.replace tab (rd_int i) (match k with
                  | "errbefore" -> StoreFaults.ErrBefore | "errafter" -> StoreFaults.ErrAfter
                  | "corrupt" -> StoreFaults.Corrupt | "truncate" -> StoreFaults.Truncate
                  | "missing" -> StoreFaults.Missing | _ -> StoreFaults.NoFault)
            | v -> raise (Bad ("bad fault " ^ to_string v))) (match plan with L l -> l | _ -> []);
        let p n = (match Hashtbl.find_opt tab (int_of_nat n) with Some f -> f | None -> StoreFaults.NoFault) in
        let o = (match rd_sym scn with
            | "request_fresh" -> StoreFaults.stored_request false true p
            | "request_stale" -> StoreFaults.stored_request true true p
            | "request_stale_idp_refuses" -> StoreFaults.stored_request true false p
            | "login" -> StoreFaults.callback_save p
            | "sign_out" -> StoreFaults.sign_out p
            | "ready" -> StoreFaults.ready_probe p
            | x -> raise (Bad ("unknown scenario " ^ x))) in
        let oc = (match o.StoreFaults.o_outcome with
            | StoreFaults.Upstream true -> "upstream_refreshed" | StoreFaults.Upstream false -> "upstream"
            | StoreFaults.Unauth -> "unauth" | StoreFaults.ErrorPage -> "error" | StoreFaults.Redirect302 -> "redirect"
            | StoreFaults.Ready -> "ready" | StoreFaults.NotReady -> "notready") in
        let opn = (function StoreFaults.OGet -> "get" | StoreFaults.OSet -> "set" | StoreFaults.ODel -> "del"
                          | StoreFaults.OLockObtain -> "lock_obtain" | StoreFaults.OLockRelease -> "lock_release" | StoreFaults.OPing -> "ping") in
        L [Y oc; L (List.map (fun x -> Y (opn x)) o.StoreFaults.o_ops); wr_bool o.StoreFaults.o_session_cookie_set; wr_bool o.StoreFaults.o_cookie_cleared]
      | _ -> raise (Bad "store_flow arity"));
  (* ---- Oidc ---- *)
  reg "oidc_paths" (function
      | [cfg; now; tok; pf; old] ->
        let c = rd_ocfg cfg and n = rd_z now and t = rd_opt rd_token tok in
        let p = rd_opt (rd_opt rd_jobj) pf in
        let r1 = Oidc.redeem c n t p in
        let r2 = Oidc.refresh_identity c n (rd_identity old) t p in
        let r3 = (match t with Some tk -> Oidc.session_from_bearer c n tk | None -> None) in
        L [wr_opt wr_identity r1; wr_opt wr_identity r2; wr_opt wr_identity r3]
      | _ -> raise (Bad "oidc_paths arity"));
  (* nonce check: the claim is (absent) or a json value *)
  reg "nonce_ok" (function
      | [skip; raw; hashed; claim] ->
        let h = rd_str hashed in
        let claims = (match claim with L [Y "absent"] -> [] | j -> [(str_of_string "nonce", rd_json j)]) in
        wr_bool (Oidc.lib_parse_ok claims && (rd_bool skip || Oidc.check_nonce (fun _ -> h) (rd_str raw) claims))
      | _ -> raise (Bad "nonce_ok arity"));
  (* ---- Upstream ---- *)
  (* the Location header http.Redirect sets for a target beginning with a single "/" *)
  reg "redirect_location" (function
      | [ok; r] -> wr_str (GoPath.location_header (rd_bool ok) (rd_str r))
      | _ -> raise (Bad "redirect_location arity"));
  (* a sign-out request racing an ordinary request: (is a session stored at the end, was the ordinary request served) *)
  reg "signout_race" (function
      | [answers; sched] ->
        let ans = Array.of_list (rd_list rd_bool answers) in
        let f k = (let i = int_of_nat k in if i < Array.length ans then ans.(i) else true) in
        let s = SignOutRace.run f SignOutRace.init (rd_list rd_bool sched) in
        let served = (match s.SignOutRace.p_req with SignOutRace.PDone (SignOutRace.Served _) -> true | _ -> false) in
        L [wr_bool (s.SignOutRace.store <> None); wr_bool served]
      | _ -> raise (Bad "signout_race arity"));
  (* two requests at a provider without refresh whose validation refuses the session: who is served *)
  reg "stamp_race" (function
      | [sched] ->
        let s = StampRace.run false StampRace.init (rd_list rd_bool sched) in
        L [wr_bool (StampRace.is_served s.StampRace.p0); wr_bool (StampRace.is_served s.StampRace.p1)]
      | _ -> raise (Bad "stamp_race arity"));
  (* the registered order satisfies the comparator of sortByPathLongest: no later upstream is `less` than an earlier one *)
  reg "upstream_sorted" (function
      | [ups] ->
        let l = rd_list (function
            | L [i; p; rw] -> { Upstream.u_id = rd_nat i; u_path = rd_str p; u_rewrite = rd_bool rw }
            | v -> raise (Bad ("bad upstream " ^ to_string v))) ups in
        let rec ok = function
          | [] -> true
          | a :: rest -> List.for_all (fun b -> not (Upstream.less b a)) rest && ok rest in
        wr_bool (ok l)
      | _ -> raise (Bad "upstream_sorted arity"));
  reg "upstream_route" (function
      | [ups; mt; mpath; upath; probe] ->
        let l = rd_list (function
            | L [i; p; rw] -> { Upstream.u_id = rd_nat i; u_path = rd_str p; u_rewrite = rd_bool rw }
            | v -> raise (Bad ("bad upstream " ^ to_string v))) ups in
        let tab = Hashtbl.create 8 in
        List.iter (function
            | L [i; p; b] -> Hashtbl.replace tab (rd_int i, string_of_str (rd_str p)) (rd_bool b)
            | v -> raise (Bad ("bad match entry " ^ to_string v))) (match mt with L x -> x | _ -> []);
        (* regular expressions are matched on the decoded path; plain routes on the path the mux uses *)
        let up = string_of_str (rd_str upath) and mp = string_of_str (rd_str mpath) and pr = string_of_str (rd_str probe) in
        let re i p =
          let ps = string_of_str p in
          let key = if ps = mp then up else if ps = pr then up ^ "/" else ps in
          (match Hashtbl.find_opt tab (int_of_nat i, key) with Some b -> b | None -> raise (Bad "regex oracle asked about an unlisted path")) in
        (match Upstream.route_gen re l (rd_str mpath) (rd_str upath) (rd_str probe) with
         | Upstream.ToUpstream i -> L [Y "to"; wr_nat i]
         | Upstream.RedirectSlash -> Y "redirect_slash"
         | Upstream.NotFound -> Y "notfound")
      | _ -> raise (Bad "upstream_route arity"));
  (* the raw query a matched upstream receives; reenc = what url.ParseQuery+Encode makes of the rule's own query *)
  reg "forwarded_query" (function
      | [reenc; rewritten; orig] ->
        let r = rd_opt rd_str reenc in
        wr_opt wr_str (Upstream.forwarded_query (fun _ -> r) (rd_opt rd_str rewritten) (rd_str orig))
      | _ -> raise (Bad "forwarded_query arity"));
  (* symbolic model: how state nonce, OIDC nonce and verifier are wrapped in the authorization request *)
  reg "auth_request_shape" (function
      | [m; sn] ->
        let m = (match rd_sym m with "none" -> Symbolic.SNone | "plain" -> Symbolic.SPlain | _ -> Symbolic.SS256) in
        let ((a, b), c) = Symbolic.auth_request_shape m (rd_bool sn) in
        L [wr_nat a; wr_nat b; wr_nat c]
      | _ -> raise (Bad "auth_request_shape arity"));
  (* ---- the composition: bypass decision + stored credential (cookie store) + handlers ---- *)
  reg "serve_request" (fun args0 ->
      let args0, vd = (match List.rev args0 with x :: rest when List.length args0 = 28 -> (List.rev rest, rd_list rd_str x) | _ -> (args0, [])) in
      match args0 with
      | [macs; ccfg; cookies; now0; now1; dtab; skip_preflight; routes; mt; pt; nets; ipt; use_header; rq;
         ep; skipb; fjson; bearer_on; basic_on; domains; groups; bearer; basic; ajax; api; vg; ve] ->
        let rd_as = rd_opt (function
            | L [em; gs] -> { Authz.a_email = rd_str em; a_groups = rd_list rd_str gs }
            | v -> raise (Bad ("bad session " ^ to_string v))) in
        let routes = rd_list (function
            | L [m; n; i] -> { Bypass.r_method = rd_str m; r_negate = rd_bool n; r_regex = rd_nat i }
            | v -> raise (Bad ("bad route " ^ to_string v))) routes in
        let mtab = Hashtbl.create 8 in
        List.iter (function
            | L [i; p; b] -> Hashtbl.replace mtab (rd_int i, string_of_str (rd_str p)) (rd_bool b)
            | v -> raise (Bad ("bad match entry " ^ to_string v))) (match mt with L l -> l | _ -> []);
        let matches i p = (match Hashtbl.find_opt mtab (int_of_nat i, string_of_str p) with
            | Some b -> b | None -> raise (Bad "regex oracle asked about an unlisted path")) in
        let ptab = Hashtbl.create 4 in
        List.iter (function
            | L [u; r] -> Hashtbl.replace ptab (string_of_str (rd_str u)) (rd_opt rd_str r)
            | v -> raise (Bad ("bad parse entry " ^ to_string v))) (match pt with L l -> l | _ -> []);
        let parse u = (match Hashtbl.find_opt ptab (string_of_str u) with
            | Some r -> r | None -> raise (Bad "uri oracle asked about an unlisted uri")) in
        let nets = rd_list (function
            | L [a; o] -> { Bypass.n_addr = rd_bign a; n_ones = rd_n o }
            | v -> raise (Bad ("bad net " ^ to_string v))) nets in
        let iptab = Hashtbl.create 4 in
        List.iter (function
            | L [u; r] -> Hashtbl.replace iptab (string_of_str (rd_str u)) (rd_opt rd_bign r)
            | v -> raise (Bad ("bad ip entry " ^ to_string v))) (match ipt with L l -> l | _ -> []);
        let parse_ip u = (match Hashtbl.find_opt iptab (string_of_str u) with Some r -> r | None -> None) in
        let dt = Hashtbl.create 4 in
        List.iter (function
            | L [raw; sess] -> Hashtbl.replace dt (string_of_str (rd_str raw)) (rd_as sess)
            | v -> raise (Bad ("bad decode entry " ^ to_string v))) (match dtab with L l -> l | _ -> []);
        let decode raw = (match Hashtbl.find_opt dt (string_of_str raw) with Some r -> r | None -> None) in
        let d = { Compose.d_cookie = rd_ccfg ccfg; d_skip_preflight = rd_bool skip_preflight; d_routes = routes;
                  d_trusted = Bypass.build_set nets; d_use_header = rd_bool use_header;
                  d_page = { Proxy.p_skip_provider_button = rd_bool skipb; p_force_json = rd_bool fjson };
                  d_bearer_on = rd_bool bearer_on; d_basic_on = rd_bool basic_on;
                  d_validator = (fun em -> Authz.email_valid (rd_list rd_str domains) [] em); d_groups = rd_list rd_str groups } in
        let e = (match rd_sym ep with "proxy" -> Proxy.EpProxy | "authonly" -> Proxy.EpAuthOnly | _ -> Proxy.EpUserInfo) in
        let run now =
          let r = { Compose.r_b = rd_breq rq; r_cookies = rd_cookies cookies; r_now = rd_z now;
                    r_bearer = rd_as bearer; r_basic = rd_as basic;
                    r_p = { Proxy.q_ajax = rd_bool ajax; q_api = rd_bool api; q_groups = rd_list rd_str vg; q_domains = vd; q_emails = rd_list rd_str ve; q_clear_fails = false } } in
          let (o, _) = Compose.serve_request (table_fun (rd_table macs)) matches parse parse_ip decode e d r in
          (match o with
           | Proxy.PUpstream _ -> "upstream" | Proxy.PAccepted _ -> "accepted"
           | Proxy.PUserInfo (Some _) -> "userinfo" | Proxy.PUserInfo None -> "userinfo_empty"
           | Proxy.PSignInPage -> "signin" | Proxy.PRedirectToProvider -> "redirect_provider"
           | Proxy.PUnauthorized -> "unauthorized" | Proxy.PForbidden -> "forbidden" | Proxy.PErrorPage -> "other_500") in
        let a = run now0 and b = run now1 in
        if a = b then L [Y a] else Y "ambiguous"
      | _ -> raise (Bad "serve_request arity"));
  (* ---- Lifetime: the login's fallbacks and one request at a provider that cannot refresh (seconds) ---- *)
  reg "redeem_fallbacks" (function
      | [now; expire; pc; pe] ->
        let s = Lifetime.redeem_fallbacks (rd_z now) (rd_z expire) (rd_opt rd_z pc) (rd_opt rd_z pe) in
        L [wr_z s.Lifetime.l_created; wr_opt wr_z s.Lifetime.l_expires]
      | _ -> raise (Bad "redeem_fallbacks arity"));
  reg "lifetime_request" (function
      | [refresh; expire; created; expires; now; valid] ->
        let s = { Lifetime.l_created = rd_z created; l_expires = rd_opt rd_z expires } in
        (match Lifetime.request_nonrefreshing (rd_z refresh) (rd_z expire) s (rd_z now) (rd_bool valid) with
         | None -> Y "refused"
         | Some s' -> L [Y "honoured"; wr_bool (s'.Lifetime.l_created = rd_z now)])
      | _ -> raise (Bad "lifetime_request arity"));
  (* ---- a chain of refreshes at a provider with single-use refresh tokens ---- *)
  reg "refresh_chain" (function
      | [flags] ->
        let s0 = { RefreshChain.t_access = Datatypes.O; t_refresh = Datatypes.O; t_id = Datatypes.O } in
        (match RefreshChain.chain_run (Datatypes.O, s0) (rd_list rd_bool flags) with
         | None -> Y "failed"
         | Some (_, s) -> L [wr_nat s.RefreshChain.t_access; wr_nat s.RefreshChain.t_refresh; wr_nat s.RefreshChain.t_id])
      | _ -> raise (Bad "refresh_chain arity"));
  reg "refresh_chain_tokens" (function
      | [flags] ->
        let s0 = { RefreshChain.t_access = Datatypes.O; t_refresh = Datatypes.O; t_id = Datatypes.O } in
        (match RefreshChain.chain_run (Datatypes.O, s0) (rd_list rd_bool flags) with
         | None -> Y "failed"
         | Some (_, s) -> L [wr_nat s.RefreshChain.t_access; wr_nat s.RefreshChain.t_refresh])
      | _ -> raise (Bad "refresh_chain_tokens arity"));
  (* ---- providers outside the OIDC family: login and validation as functions of the endpoints' answers ---- *)
  reg "generic_login" (function
      | [code; tt; ts; tb; pt; ps; email] ->
        let rd_body = (function
            | L [Y "json"; a] -> GenericProvider.TJson (rd_opt rd_str a)
            | L [Y "form"; a] -> GenericProvider.TForm (rd_opt rd_str a)
            | Y "unparsable" -> GenericProvider.TUnparsable
            | v -> raise (Bad ("bad token body " ^ to_string v))) in
        let rt = { GenericProvider.rp_transport_ok = rd_bool tt; rp_status = rd_z ts } in
        let rp = { GenericProvider.rp_transport_ok = rd_bool pt; rp_status = rd_z ps } in
        wr_bool (GenericProvider.generic_login (rd_str code) rt (rd_body tb) rp (rd_opt rd_str email) <> None)
      | _ -> raise (Bad "generic_login arity"));
  reg "generic_validate" (function
      | [tok; tt; ts] ->
        wr_bool (GenericProvider.generic_validate (rd_str tok) { GenericProvider.rp_transport_ok = rd_bool tt; rp_status = rd_z ts })
      | _ -> raise (Bad "generic_validate arity"));
  (* ---- admission at login: validator on the e-mail and the provider's group rule ---- *)
  reg "login_admits" (function
      | [domains; file; allowed; email; groups] ->
        wr_bool (Authz.login_admits (Authz.email_valid (rd_list rd_str domains) (rd_list rd_str file)) (rd_list rd_str allowed)
                   { Authz.a_email = rd_str email; a_groups = rd_list rd_str groups })
      | _ -> raise (Bad "login_admits arity"));
  (* ---- an extra JWT issuer entry ---- *)
  reg "parse_jwt_issuer" (function
      | [spec] -> wr_opt (fun (u, a) -> L [wr_str u; wr_str a]) (JwtIssuers.parse_jwt_issuer (rd_str spec))
      | _ -> raise (Bad "parse_jwt_issuer arity"));
  reg "extra_issuer_accepts" (function
      | [spec; aud] -> wr_bool (match JwtIssuers.parse_jwt_issuer (rd_str spec) with
          | Some (_, a) -> Bytes0.str_eqb a (rd_str aud) | None -> false)
      | _ -> raise (Bad "extra_issuer_accepts arity"));
  (* ---- the configured code-challenge method ---- *)
  reg "pkce_method" (function
      | [m] -> Y (match Pkce.method_of_string (rd_str m) with
          | Some Pkce.PkceNone -> "none" | Some Pkce.PkcePlain -> "plain" | Some Pkce.PkceS256 -> "s256" | None -> "refused")
      | _ -> raise (Bad "pkce_method arity"));
  (* ---- which handler answers a liveness / readiness probe ---- *)
  reg "probe" (function
      | [pp; rp; pu; gcp; ok; path; ua] ->
        let c = { Probe.ping_path = rd_str pp; ready_path = rd_str rp; ping_ua = rd_str pu; gcp_checks = rd_bool gcp } in
        Y (match Probe.probe c (rd_bool ok) (rd_str path) (rd_str ua) with
            | Probe.Alive -> "alive" | Probe.ReadyOK -> "ready" | Probe.NotReady -> "notready" | Probe.Pass -> "pass")
      | _ -> raise (Bad "probe arity"));
  (* ---- the legacy header flags converted into header lists ---- *)
  reg "legacy_headers" (function
      | [pba; pat; puh; paz; sba; sxa; saz; pref; strip; pw] ->
        let l = { LegacyHeaders.l_pass_basic_auth = rd_bool pba; l_pass_access_token = rd_bool pat; l_pass_user_headers = rd_bool puh;
                  l_pass_authorization = rd_bool paz; l_set_basic_auth = rd_bool sba; l_set_xauthrequest = rd_bool sxa;
                  l_set_authorization = rd_bool saz; l_prefer_email_to_user = rd_bool pref; l_skip_auth_strip_headers = rd_bool strip;
                  l_basic_auth_password = rd_str pw } in
        let wr_val = (function
            | Headers.SecretV x -> L [Y "secret"; wr_str x]
            | Headers.ClaimV (c, p, b) -> L [Y "claim"; wr_str c; wr_str p; wr_opt wr_str b]) in
        let wr_entry (h : Headers.hentry) = L [wr_str h.Headers.h_name; wr_bool h.Headers.h_preserve; wr_list wr_val h.Headers.h_values] in
        L [wr_list wr_entry (LegacyHeaders.legacy_request_headers l); wr_list wr_entry (LegacyHeaders.legacy_response_headers l)]
      | _ -> raise (Bad "legacy_headers arity"));
  (* ---- Proxy ---- *)
  reg "proxy_serve" (fun args0 ->
      (* an optional trailing argument: the allowed_email_domains query constraint *)
      let args0, vd = (match List.rev args0 with x :: rest when List.length args0 = 15 -> (List.rev rest, rd_list rd_str x) | _ -> (args0, [])) in
      match args0 with
      | [ep; skipb; fjson; bypass; domains; groups; bearer; basic; stored; ajax; api; vg; ve; clearfails] ->
        let rd_as = rd_opt (function
            | L [em; gs] -> { Authz.a_email = rd_str em; a_groups = rd_list rd_str gs }
            | v -> raise (Bad ("bad session " ^ to_string v))) in
        let e = (match rd_sym ep with "proxy" -> Proxy.EpProxy | "authonly" -> Proxy.EpAuthOnly | _ -> Proxy.EpUserInfo) in
        let cfg = { Proxy.p_skip_provider_button = rd_bool skipb; p_force_json = rd_bool fjson } in
        let c = { Proxy.cr_bearer = rd_as bearer; cr_basic = rd_as basic; cr_stored = rd_as stored } in
        let rq = { Proxy.q_ajax = rd_bool ajax; q_api = rd_bool api; q_groups = rd_list rd_str vg; q_domains = vd; q_emails = rd_list rd_str ve; q_clear_fails = rd_bool clearfails } in
        let validator em = Authz.email_valid (rd_list rd_str domains) [] em in
        let (o, cleared) = Proxy.serve e cfg true true (rd_bool bypass) validator (rd_list rd_str groups) c rq in
        let cls = (match o with
            | Proxy.PUpstream _ -> "upstream" | Proxy.PAccepted _ -> "accepted"
            | Proxy.PUserInfo (Some _) -> "userinfo" | Proxy.PUserInfo None -> "userinfo_empty"
            | Proxy.PSignInPage -> "signin" | Proxy.PRedirectToProvider -> "redirect_provider"
            | Proxy.PUnauthorized -> "unauthorized" | Proxy.PForbidden -> "forbidden" | Proxy.PErrorPage -> "other_500") in
        ignore cleared; L [Y cls]
      | _ -> raise (Bad "proxy_serve arity"));
  reg "split_host_port" (function
      | [x] -> wr_opt (wr_pair wr_str wr_str) (NetAddr.split_host_port (rd_str x))
      | _ -> raise (Bad "split_host_port arity"));
  (* ---- Csrf ---- *)
  reg "callback_state" (function
      | [macs; decs; hashes; cfg; state; cookies; now0; now1; redeem_ok] ->
        let m = table_fun (rd_table macs) in
        let h = table_fun (rd_table hashes) in
        let dtab = Hashtbl.create 8 in
        List.iter (function
            | L [k; L [st; nn; cv]] ->
              Hashtbl.replace dtab (string_of_str (rd_str k))
                { Csrf.cs_state = rd_str st; cs_nonce = rd_str nn; cs_verifier = rd_str cv }
            | v -> raise (Bad ("bad dec entry " ^ to_string v))) (match decs with L l -> l | _ -> []);
        let d raw = Hashtbl.find_opt dtab (string_of_str raw) in
        let c = (match cfg with
            | L [name; per; enc; expire] ->
              { Csrf.k_name = rd_str name; k_per_request = rd_bool per; k_encode_state = rd_bool enc;
                k_expire_ns = rd_z expire }
            | v -> raise (Bad ("bad csrf cfg " ^ to_string v))) in
        let f now = Csrf.callback_state m d h c (rd_str state) (rd_cookies cookies) (rd_z now) (rd_bool redeem_ok) in
        let a = f now0 and b = f now1 in
        if a <> b then Y "ambiguous" else
          (match a with
           | Csrf.CbStateInvalid -> Y "state_invalid"
           | Csrf.CbNoCsrf -> Y "no_csrf"
           | Csrf.CbRedeemFail -> Y "redeem_fail"
           | Csrf.CbStateMismatch -> Y "state_mismatch"
           | Csrf.CbStateOK (r, rd) ->
             L [Y "ok"; wr_str rd; wr_str r.Csrf.cs_nonce; wr_str r.Csrf.cs_verifier])
      | _ -> raise (Bad "callback_state arity"));
  (* the callback's observable outcome up to the state check, given an IdP that answers the
     redemption (or not) and echoes the nonce of the login the state belongs to *)
  reg "callback_obs" (function
      | [macs; decs; hashes; cfg; state; cookies; now0; now1; redeem_ok] ->
        let m = table_fun (rd_table macs) in
        let h = table_fun (rd_table hashes) in
        let dtab = Hashtbl.create 8 in
        List.iter (function
            | L [k; L [st; nn; cv]] ->
              Hashtbl.replace dtab (string_of_str (rd_str k))
                { Csrf.cs_state = rd_str st; cs_nonce = rd_str nn; cs_verifier = rd_str cv }
            | v -> raise (Bad ("bad dec entry " ^ to_string v))) (match decs with L l -> l | _ -> []);
        let d raw = Hashtbl.find_opt dtab (string_of_str raw) in
        let c = (match cfg with
            | L [name; per; enc; expire] ->
              { Csrf.k_name = rd_str name; k_per_request = rd_bool per; k_encode_state = rd_bool enc;
                k_expire_ns = rd_z expire }
            | v -> raise (Bad ("bad csrf cfg " ^ to_string v))) in
        let f now = Csrf.callback_state m d h c (rd_str state) (rd_cookies cookies) (rd_z now) (rd_bool redeem_ok) in
        let a = f now0 and b = f now1 in
        let obs st sess tok clr loc = L [I (string_of_int st); wr_bool sess; wr_bool tok; wr_bool clr; S loc] in
        if a <> b then Y "ambiguous" else
          (match a with
           | Csrf.CbStateInvalid -> obs 500 false false false ""
           | Csrf.CbNoCsrf -> obs 403 false false false ""
           | Csrf.CbRedeemFail -> obs 500 false true false ""
           | Csrf.CbStateMismatch -> obs 403 false true true ""
           | Csrf.CbStateOK (_, rd) -> obs 302 true true true (string_of_str rd))
      | _ -> raise (Bad "callback_obs arity"));
  reg "csrf_load_ok" (function
      | [macs; decs; cfg; cookies; name; now0; now1] ->
        let m = table_fun (rd_table macs) in
        let dtab = Hashtbl.create 8 in
        List.iter (function
            | L [k; L [st; nn; cv]] ->
              Hashtbl.replace dtab (string_of_str (rd_str k))
                { Csrf.cs_state = rd_str st; cs_nonce = rd_str nn; cs_verifier = rd_str cv }
            | v -> raise (Bad ("bad dec entry " ^ to_string v))) (match decs with L l -> l | _ -> []);
        let d raw = Hashtbl.find_opt dtab (string_of_str raw) in
        let c = (match cfg with
            | L [nm; per; enc; expire] ->
              { Csrf.k_name = rd_str nm; k_per_request = rd_bool per; k_encode_state = rd_bool enc;
                k_expire_ns = rd_z expire }
            | v -> raise (Bad ("bad csrf cfg " ^ to_string v))) in
        let f now = Csrf.load_csrf m d c (rd_cookies cookies) (rd_str name) (rd_z now) <> None in
        let a = f now0 and b = f now1 in
        if a = b then wr_bool a else Y "ambiguous"
      | _ -> raise (Bad "csrf_load_ok arity"));
  reg "decode_state" (function
      | [state; enc] -> wr_opt (wr_pair wr_str wr_str) (Csrf.decode_state (rd_str state) (rd_bool enc))
      | _ -> raise (Bad "decode_state arity"));
  reg "encode_state" (function
      | [nonce; rd; enc] -> wr_str (Csrf.encode_state (rd_str nonce) (rd_str rd) (rd_bool enc))
      | _ -> raise (Bad "encode_state arity"));
  ()
