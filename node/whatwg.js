// Reads JSON lines {"id":..,"base":"https://host/path","loc":"<hex of the Location value>"} on stdin and
// prints {"id":..,"ok":bool,"protocol":..,"hostname":..,"port":..} using Node's WHATWG URL parser
// (what a browser does with a Location header).  Validates/oracles only; not part of any proof.
const rl = require('readline').createInterface({ input: process.stdin, terminal: false });
rl.on('line', (line) => {
  if (!line.trim()) return;
  const q = JSON.parse(line);
  const loc = Buffer.from(q.loc, 'hex').toString('latin1');
  // header values travel as bytes; browsers decode Location as UTF-8 after percent-encoding non-ASCII
  let out = { id: q.id, ok: false };
  try {
    const u = new URL(loc, q.base);
    out = { id: q.id, ok: true, protocol: u.protocol, hostname: u.hostname, port: u.port, href: u.href };
  } catch (e) { out.err = String(e); }
  console.log(JSON.stringify(out));
});
