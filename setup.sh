#!/bin/sh
# MANIFEST.setup_cmd: offline build of the framework from files on disk only.
set -e
cd "$(dirname "$0")"
mkdir -p build evidence replays
python3 - <<'PY'
import sys, os
sys.path.insert(0, os.getcwd())
from vlib import core
with core.Lock():
    ok, missing, _ = core.translate()
    if not ok:
        print("translator:", missing)
    core.coq_makefile()
    rc, out, dt = core.coq_make([], timeout=3000)   # full build of every .v (Lib, Gen, Model, Proofs, Properties)
    print("coq make rc=%d %.1fs" % (rc, dt))
    if rc != 0:
        print(out[-4000:])
    exe, dt = core.build_model_driver()
    print("model driver", exe, "%.1fs" % dt)
    # warm the Go build cache with every driver binary
    from vlib.props import PROPS
    seen = set()
    for p, spec in PROPS.items():
        for d in spec["drivers"]:
            key = (d["pkg"], d["overlay"], d.get("race", False))
            if key in seen:
                continue
            seen.add(key)
            rc, out, dt, exe = core.build_go_driver(d["pkg"], d["overlay"], race=d.get("race", False))
            print("go driver", key, "rc=%d %.1fs" % (rc, dt))
            if rc != 0:
                print(out[-3000:])
PY
