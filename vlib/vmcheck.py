"""Second opinion on extraction (thorough tier): a sample of the model calls the OCaml driver answered is
evaluated again INSIDE Coq with vm_compute on the Gallina definitions themselves, and the two answers
are compared inside Coq.  Covers the entry points whose arguments are plain data (no oracle closures
other than a finite MAC table): email_valid, validate, cs_load, cs_load_ok, netset_has, forwarded_query,
auth_request_shape, redirect_location, signout_race, stamp_race.
A disagreement means the extracted program or its OCaml glue does not compute what the theorems are about."""
import os, re, subprocess, time

from . import core

MAXN = 250
BUDGET = 60000   # literal bytes per entry point (about 20 s of coqc)


# ---- S-expression reader (the case-file dialect: "hex" strings, integers, symbols, lists) ----
def parse(s):
    pos = 0
    n = len(s)

    def skip():
        nonlocal pos
        while pos < n and s[pos] in " \t\r\n":
            pos += 1

    def rd():
        nonlocal pos
        skip()
        c = s[pos]
        if c == "(":
            pos += 1
            out = []
            while True:
                skip()
                if s[pos] == ")":
                    pos += 1
                    return out
                out.append(rd())
        if c == '"':
            j = s.index('"', pos + 1)
            v = ("str", bytes.fromhex(s[pos + 1:j]))
            pos = j + 1
            return v
        j = pos
        while j < n and s[j] not in " \t\r\n()":
            j += 1
        tok = s[pos:j]
        pos = j
        if re.fullmatch(r"-?\d+", tok):
            return ("int", int(tok))
        return ("sym", tok)

    return rd()


# ---- Coq literals ----
def c_str(v):
    assert v[0] == "str", v
    if not v[1]:
        return "([] : str)"
    return "[" + ";".join(str(b) for b in v[1]) + "]%N"


def c_z(v):
    assert v[0] == "int", v
    return "(%d)%%Z" % v[1]


def c_n(v):
    assert v[0] == "int" and v[1] >= 0, v
    return "%d%%N" % v[1]


def c_bool(v):
    assert v[0] == "sym" and v[1] in ("true", "false"), v
    return v[1]


def c_list(f, v):
    assert isinstance(v, list), v
    return "[" + "; ".join(f(x) for x in v) + "]"


def c_opt(f, v):
    if v == ("sym", "none"):
        return "None"
    assert isinstance(v, list) and v[0] == ("sym", "some"), v
    return "(Some %s)" % f(v[1])


def c_table(v):
    return c_list(lambda kv: "(%s, %s)" % (c_str(kv[0]), c_str(kv[1])), v)


HEADS = {}


def head(name):
    def deco(f):
        HEADS[name] = f
        return f
    return deco


@head("email_valid")
def _email(args, out):
    d, f, e = args
    return "Bool.eqb (email_valid %s %s %s) %s" % (c_list(c_str, d), c_list(c_str, f), c_str(e), c_bool(out))


@head("validate")
def _validate(args, out):
    macs, name, value, now0, now1, expire = args
    if out == ("sym", "ambiguous"):
        return None
    exp = c_opt(lambda p: "(%s, %s)" % (c_str(p[0]), c_z(p[1])), out)
    def call(now):
        return "validate (tabf %s) %s %s %s %s" % (c_table(macs), c_str(name), c_str(value), c_z(now), c_z(expire))
    return "(res_eqb (%s) %s) && (res_eqb (%s) %s)" % (call(now0), exp, call(now1), exp)


def c_ccfg(v):
    name, path, domains, secure, httponly, samesite, expire = v
    return ("{| c_name := %s; c_path := %s; c_domains := %s; c_secure := %s; c_httponly := %s; c_samesite := %s; c_expire_ns := %s |}"
            % (c_str(name), c_str(path), c_list(c_str, domains), c_bool(secure), c_bool(httponly), c_n(samesite), c_z(expire)))


def c_cookies(v):
    return c_list(lambda kv: "(%s, %s)" % (c_str(kv[0]), c_str(kv[1])), v)


@head("cs_load_ok")
def _cs_load_ok(args, out):
    macs, cfg, cookies, now0, now1 = args
    if out == ("sym", "ambiguous"):
        return None
    def call(now):
        return "(match store_load (tabf %s) %s %s %s with Some _ => true | None => false end)" % (c_table(macs), c_ccfg(cfg), c_cookies(cookies), c_z(now))
    return "(Bool.eqb %s %s) && (Bool.eqb %s %s)" % (call(now0), c_bool(out), call(now1), c_bool(out))


@head("cs_load")
def _cs_load(args, out):
    macs, cfg, cookies, now0, now1 = args
    if out == ("sym", "ambiguous"):
        return None
    exp = c_opt(lambda p: "(%s, %s)" % (c_str(p[0]), c_z(p[1])), out)
    def call(now):
        return "store_load (tabf %s) %s %s %s" % (c_table(macs), c_ccfg(cfg), c_cookies(cookies), c_z(now))
    return "(res_eqb (%s) %s) && (res_eqb (%s) %s)" % (call(now0), exp, call(now1), exp)


@head("netset_has")
def _netset(args, out):
    nets, ip = args
    ns = c_list(lambda p: "{| n_addr := %s; n_ones := %s |}" % (c_n(p[0]), c_n(p[1])), nets)
    return "Bool.eqb (set_has (build_set %s) %s) %s" % (ns, c_n(ip), c_bool(out))


@head("forwarded_query")
def _fq(args, out):
    reenc, rewritten, orig = args
    return "ostr_eqb (forwarded_query (fun _ => %s) %s %s) %s" % (c_opt(c_str, reenc), c_opt(c_str, rewritten), c_str(orig), c_opt(c_str, out))


@head("auth_request_shape")
def _shape(args, out):
    m, sn = args
    mm = {"none": "SNone", "plain": "SPlain", "s256": "SS256"}[m[1]]
    a, b, c = out
    return "(let '(a, b, c) := auth_request_shape %s %s in Nat.eqb a %d && Nat.eqb b %d && Nat.eqb c %d)" % (mm, c_bool(sn), a[1], b[1], c[1])


@head("redirect_location")
def _loc(args, out):
    ok, r = args
    return "str_eqb (GoPath.location_header %s %s) %s" % (c_bool(ok), c_str(r), c_str(out))


@head("signout_race")
def _sor(args, out):
    ans, sched = args
    stored, served = out
    return ("(let s := SignOutRace.run (fun k => nth k %s true) SignOutRace.init %s in "
            "Bool.eqb (match SignOutRace.store s with None => false | Some _ => true end) %s && "
            "Bool.eqb (match SignOutRace.p_req s with SignOutRace.PDone (SignOutRace.Served _) => true | _ => false end) %s)"
            % (c_list(c_bool, ans), c_list(c_bool, sched), c_bool(stored), c_bool(served)))


@head("stamp_race")
def _str(args, out):
    (sched,) = args
    a, b = out
    return ("(let s := StampRace.run false StampRace.init %s in Bool.eqb (StampRace.is_served (StampRace.p0 s)) %s && "
            "Bool.eqb (StampRace.is_served (StampRace.p1 s)) %s)" % (c_list(c_bool, sched), c_bool(a), c_bool(b)))


PRELUDE = """From Coq Require Import List Bool ZArith NArith.
Import ListNotations.
From V.Lib Require Import Bytes Base64 NetAddr.
From V.Gen Require Import Consts.
From V.Model Require Import Signed Cookies CookieStore Authz Bypass Upstream Symbolic.
From V.Model Require GoPath SignOutRace StampRace.
Open Scope bool_scope.
(* the OCaml driver's finite MAC table: unknown inputs map to a value that is not a byte string *)
Definition tabf (t : list (str * str)) (k : str) : str := match assoc k t with Some v => v | None => [256%N] end.
Definition res_eqb (a b : option (str * Z)) : bool :=
  match a, b with
  | None, None => true
  | Some (x, t), Some (y, u) => str_eqb x y && Z.eqb t u
  | _, _ => false
  end.
Definition ostr_eqb (a b : option str) : bool :=
  match a, b with None, None => true | Some x, Some y => str_eqb x y | _, _ => false end.
"""


def run(prop, cases, results):
    """cases: (id, label, flags, impl, call); results: id -> model output text.  Returns a dict."""
    picked = {}
    for cid, label, flags, impl, call in cases:
        m = re.match(r"\((\w+)", call)
        if not m or m.group(1) not in HEADS or cid not in results:
            continue
        lst = picked.setdefault(m.group(1), [])
        lst.append((cid, call, results[cid]))
    exprs = []
    ids = []
    skipped = 0
    for h, lst in picked.items():
        # byte-string literals are slow to parse inside Coq: an evenly spaced sample, smallest calls first,
        # within a budget of literal bytes per entry point
        step = max(1, len(lst) // (4 * MAXN))
        sample = sorted(lst[::step], key=lambda x: len(x[1]))[:MAXN]
        budget = BUDGET
        chosen = []
        for item in sample:
            cost = len(item[1]) // 2
            if cost > budget:
                break
            budget -= cost
            chosen.append(item)
        for cid, call, outtxt in chosen:
            try:
                sx = parse(call)
                out = parse(outtxt)
                e = HEADS[h](sx[1:], out)
            except Exception:
                skipped += 1
                continue
            if e is None:
                skipped += 1
                continue
            exprs.append(e)
            ids.append((h, cid))
    res = {"evaluated": len(exprs), "skipped": skipped, "disagreements": [], "ok": True, "wall_s": 0.0,
           "heads": sorted(set(h for h, _ in ids))}
    if not exprs:
        return res
    d = os.path.join(core.BUILD, "vmcheck")
    os.makedirs(d, exist_ok=True)
    path = os.path.join(d, "%s_vm.v" % prop)
    with open(path, "w") as f:
        f.write(PRELUDE)
        f.write("Definition checks : list bool := [\n  " + ";\n  ".join(exprs) + "\n].\n")
        f.write("Definition bad := Eval vm_compute in\n"
                "  (fix go (i : nat) (l : list bool) : list nat := match l with [] => [] | b :: r => if b then go (S i) r else i :: go (S i) r end) 0 checks.\n")
        f.write("Print bad.\n")
    t0 = time.time()
    args = ["coqc", "-Q", os.path.join(core.COQ, "Lib"), "V.Lib", "-Q", os.path.join(core.COQ, "Gen"), "V.Gen",
            "-Q", os.path.join(core.COQ, "Model"), "V.Model", "-w", "-notation-overridden", path]
    rc, out, dt = core.run(args, cwd=d, timeout=1800)
    res["wall_s"] = round(time.time() - t0, 1)
    m = re.search(r"bad\s*=\s*\[(.*?)\]", out, re.S)
    if rc != 0 or not m:
        res["ok"] = False
        res["disagreements"] = [{"error": out[-1500:]}]
        return res
    idx = [int(x) for x in re.findall(r"\d+", m.group(1))]
    for i in idx:
        res["disagreements"].append({"head": ids[i][0], "case": ids[i][1]})
    res["ok"] = not idx
    return res
