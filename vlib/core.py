"""Orchestrator for the per-property checks (see DESIGN.md section 2.2).

Flow of one check: translate Go -> coq/Gen, build the property's proof cone with coqc (full .vo),
hygiene grep, (re)build the extracted OCaml model driver, build the Go drivers from /repo's
working tree with `go test -c -tags verif -overlay`, run them, run the model on the same cases,
compare projected observables, evaluate the model-independent oracles' verdicts, match known
findings, write evidence, print VIOLATION lines.
"""
import fcntl
import glob
import hashlib
import json
import os
import re
import shutil
import subprocess
import sys
import time

VERIF = os.path.dirname(os.path.dirname(os.path.abspath(__file__)))
REPO = os.environ.get("VERIF_REPO", "/repo")
COQ = os.path.join(VERIF, "coq")
BUILD = os.path.join(VERIF, "build")
EVID = os.environ.get("VERIF_EVID_DIR") or os.path.join(VERIF, "evidence")
REPLAYS = os.path.join(VERIF, "replays")
NPROC = str(os.cpu_count() or 4)

GOENV = dict(os.environ)
GOENV.update({"GOFLAGS": "-mod=mod", "GOPROXY": "off"})
GOENV.pop("GOTOOLCHAIN", None)   # the repo's toolchain (go1.23.7) is selected from the module cache
GOENV.pop("GOSUMDB", None)

ALLOWED_AXIOMS = set()   # the development is stdlib-only and axiom-free; anything printed is reported

HYGIENE_RE = re.compile(
    r"\b(Admitted|admit|Axiom|Axioms|Parameter|Parameters|Conjecture|Conjectures|Abort All)\b|"
    r"Unset\s+Guard|bypass_check|type-in-type|Unset\s+Universe\s+Checking|Unset\s+Positivity|"
    r"Admit\s+Obligations|native_compute")


def log(*a):
    print(*a, file=sys.stderr, flush=True)


def run(cmd, timeout=1200, cwd=None, env=None, stdin=None, capture=True):
    t0 = time.time()
    try:
        p = subprocess.run(cmd, cwd=cwd, env=env, input=stdin, timeout=timeout,
                           stdout=subprocess.PIPE if capture else None,
                           stderr=subprocess.STDOUT if capture else None)
        out = p.stdout.decode("utf-8", "replace") if capture and p.stdout else ""
        return p.returncode, out, time.time() - t0
    except subprocess.TimeoutExpired as e:
        out = e.stdout.decode("utf-8", "replace") if e.stdout else ""
        return 124, out + "\n[timeout]", time.time() - t0


class Lock:
    def __init__(self, name="build"):
        os.makedirs(BUILD, exist_ok=True)
        self.path = os.path.join(BUILD, "." + name + ".lock")

    def __enter__(self):
        self.f = open(self.path, "w")
        fcntl.flock(self.f, fcntl.LOCK_EX)
        return self

    def __exit__(self, *a):
        fcntl.flock(self.f, fcntl.LOCK_UN)
        self.f.close()


# ------------------------------------------------------------------------------------------------
# translator

def build_xlate():
    exe = os.path.join(BUILD, "xlate")
    srcs = glob.glob(os.path.join(VERIF, "go/xlate/*.go"))
    if os.path.exists(exe) and all(os.path.getmtime(s) <= os.path.getmtime(exe) for s in srcs):
        return exe
    env = dict(GOENV)
    env["GOFLAGS"] = ""
    rc, out, _ = run(["go", "build", "-o", exe, "."], cwd=os.path.join(VERIF, "go/xlate"), env=env)
    if rc != 0:
        raise RuntimeError("translator build failed:\n" + out)
    return exe


def translate():
    exe = build_xlate()
    os.makedirs(os.path.join(COQ, "Gen"), exist_ok=True)   # not under version control: absent in a fresh checkout
    rc, out, dt = run([exe, "-repo", REPO, "-out", os.path.join(COQ, "Gen")], timeout=120)
    missing = [l for l in out.splitlines() if "PATTERN-MISSING" in l or l.startswith("xlate:")]
    return rc == 0, missing, dt


# ------------------------------------------------------------------------------------------------
# Coq

def coq_files():
    fs = []
    for d in ("Lib", "Gen", "Model", "Proofs", "Properties"):
        fs += sorted(glob.glob(os.path.join(COQ, d, "*.v")))
    return [os.path.relpath(f, COQ) for f in fs]


COQPROJECT_HEAD = """-Q Lib V.Lib
-Q Gen V.Gen
-Q Model V.Model
-Q Proofs V.Proofs
-Q Properties V.Properties
-arg -w -arg -notation-overridden,-deprecated-hint-without-locality,-deprecated-instance-without-locality,-unused-pattern-matching-variable
"""


def coq_makefile():
    proj = COQPROJECT_HEAD + "\n".join(coq_files()) + "\n"
    p = os.path.join(COQ, "_CoqProject")
    old = open(p).read() if os.path.exists(p) else ""
    mk = os.path.join(COQ, "Makefile")
    if old != proj or not os.path.exists(mk):
        open(p, "w").write(proj)
        rc, out, _ = run(["coq_makefile", "-f", "_CoqProject", "-o", "Makefile"], cwd=COQ)
        if rc != 0:
            raise RuntimeError("coq_makefile failed:\n" + out)


def coq_make(targets, timeout=1500):
    coq_makefile()
    rc, out, dt = run(["make", "-j", NPROC] + targets, cwd=COQ, timeout=timeout)
    return rc, out, dt


def coq_cone(prop_file):
    """Transitive .v dependencies of a Properties file inside the development (via coqdep)."""
    rc, out, _ = run(["coqdep", "-f", "_CoqProject"], cwd=COQ)
    deps = {}
    for line in out.splitlines():
        if ":" not in line:
            continue
        lhs, rhs = line.split(":", 1)
        tg = [t for t in lhs.split() if t.endswith(".vo")]
        if not tg:
            continue
        v = tg[0][:-1]
        deps[v] = [d[:-1] for d in rhs.split() if d.endswith(".vo")]
    cone, todo = set(), [prop_file]
    while todo:
        f = todo.pop()
        if f in cone:
            continue
        cone.add(f)
        todo += deps.get(f, [])
    return sorted(cone)


STMT_RE = re.compile(r"^\s*(?:Local\s+|Global\s+|#\[[^\]]*\]\s*)*(Theorem|Lemma|Corollary|Example|Fact|Remark|Proposition)\s+([A-Za-z0-9_']+)", re.M)


def count_obligations(cone):
    total, names = 0, []
    for f in cone:
        try:
            src = open(os.path.join(COQ, f)).read()
        except OSError:
            continue
        for m in STMT_RE.finditer(src):
            total += 1
            if f.startswith("Properties/"):
                names.append(m.group(2))
    return total, names


def hygiene():
    bad = []
    for f in coq_files() + ["Extract/Extract.v"]:
        p = os.path.join(COQ, f)
        if not os.path.exists(p):
            continue
        src = open(p).read()
        # strip comments (non-nested is enough for a conservative scan: scan everything else too)
        nocom = re.sub(r"\(\*.*?\*\)", " ", src, flags=re.S)
        for i, line in enumerate(nocom.splitlines(), 1):
            if HYGIENE_RE.search(line):
                bad.append("%s:%d: %s" % (f, i, line.strip()[:120]))
    return bad


def parse_assumptions(out):
    """Returns (closed_count, axioms list) from Print Assumptions output."""
    closed = out.count("Closed under the global context")
    axioms = []
    m = re.findall(r"Axioms:\n((?:.+\n?)+?)(?:\n|$)", out)
    for blk in m:
        for l in blk.splitlines():
            l = l.strip()
            if l and not l.startswith("Closed"):
                axioms.append(l)
    return closed, axioms


def prove(prop):
    """Build Properties/<prop>.vo and its cone; returns dict with status and assumptions."""
    pf = "Properties/%s.v" % prop
    res = {"file": pf, "ok": False, "log": "", "closed": 0, "axioms": [], "obligations": 0,
           "discharged": 0, "theorems": [], "failed_at": None, "wall_s": 0.0}
    if not os.path.exists(os.path.join(COQ, pf)):
        res["log"] = "no property file"
        return res
    coq_makefile()
    cone = coq_cone(pf)
    res["cone"] = cone
    res["obligations"], res["theorems"] = count_obligations(cone)
    deps = [c + "o" for c in cone if c != pf]
    rc, out, dt = coq_make(deps) if deps else (0, "", 0.0)
    res["wall_s"] += dt
    if rc != 0:
        res["log"] = out[-6000:]
        m = re.search(r'File "\./([^"]+)", line (\d+)', out)
        if m:
            res["failed_at"] = "%s:%s" % (m.group(1), m.group(2))
        done = [c for c in cone if os.path.exists(os.path.join(COQ, c + "o"))
                and os.path.getmtime(os.path.join(COQ, c + "o")) >= os.path.getmtime(os.path.join(COQ, c))]
        res["discharged"], _ = count_obligations(done)
        return res
    # always recompile the (small) property file itself to capture Print Assumptions
    args = ["coqc", "-Q", "Lib", "V.Lib", "-Q", "Gen", "V.Gen", "-Q", "Model", "V.Model",
            "-Q", "Proofs", "V.Proofs", "-Q", "Properties", "V.Properties",
            "-w", "-notation-overridden,-deprecated-hint-without-locality", pf]
    rc, out, dt = run(args, cwd=COQ, timeout=900)
    res["wall_s"] += dt
    res["log"] = out[-6000:]
    if rc != 0:
        m = re.search(r'File "\./([^"]+)", line (\d+)', out)
        if m:
            res["failed_at"] = "%s:%s" % (m.group(1), m.group(2))
        done = [c for c in cone if c != pf]
        res["discharged"], _ = count_obligations(done)
        return res
    res["closed"], res["axioms"] = parse_assumptions(out)
    res["ok"] = True
    res["discharged"] = res["obligations"]
    return res


def coqchk(prop):
    """thorough tier: re-check the compiled property file and everything it depends on with the
    independent checker, and report the axioms it lists."""
    args = ["coqchk", "-silent", "-o", "-Q", "Lib", "V.Lib", "-Q", "Gen", "V.Gen", "-Q", "Model", "V.Model",
            "-Q", "Proofs", "V.Proofs", "-Q", "Properties", "V.Properties", "V.Properties.%s" % prop]
    rc, out, dt = run(args, cwd=COQ, timeout=3600)
    res = {"ok": rc == 0, "wall_s": round(dt, 1), "axioms": [], "log": out[-3000:]}
    m = re.search(r"\* Axioms:(.*?)\n\s*\n\* Constants", out, re.S)
    if m:
        body = m.group(1).strip()
        if body and body != "<none>":
            res["axioms"] = [l.strip() for l in body.splitlines() if l.strip()]
    elif rc == 0:
        res["ok"] = False
    for key in ("type-in-type", "unsafe (co)fixpoints", "positivity is assumed"):
        m2 = re.search(re.escape(key) + r":(.*?)(\n\s*\n|\Z)", out, re.S)
        if m2 and m2.group(1).strip() not in ("<none>", ""):
            res["ok"] = False
            res["axioms"].append("%s: %s" % (key, m2.group(1).strip()[:200]))
    return res


# ------------------------------------------------------------------------------------------------
# extracted model driver

def model_sources():
    fs = []
    for d in ("Lib", "Gen", "Model"):
        fs += glob.glob(os.path.join(COQ, d, "*.v"))
    fs.append(os.path.join(COQ, "Extract/Extract.v"))
    fs += glob.glob(os.path.join(VERIF, "ocaml/*.ml"))
    return fs


def _digest(paths):
    h = hashlib.sha256()
    for p in sorted(paths):
        h.update(p.encode())
        h.update(open(p, "rb").read())
    return h.hexdigest()


def build_model_driver():
    exe = os.path.join(BUILD, "modelrun")
    stamp = os.path.join(BUILD, "modelrun.stamp")
    dg = _digest(model_sources())
    if os.path.exists(exe) and os.path.exists(stamp) and open(stamp).read() == dg:
        return exe, 0.0
    t0 = time.time()
    # the model's .vo files
    coq_makefile()
    models = [f + "o" for f in coq_files() if f.startswith(("Lib/", "Gen/", "Model/"))]
    rc, out, _ = coq_make(models)
    if rc != 0:
        raise RuntimeError("model does not compile:\n" + out[-4000:])
    ex = os.path.join(BUILD, "extract")
    shutil.rmtree(ex, ignore_errors=True)
    os.makedirs(ex)
    rc, out, _ = run(["coqc", "-Q", os.path.join(COQ, "Lib"), "V.Lib", "-Q", os.path.join(COQ, "Gen"), "V.Gen",
                      "-Q", os.path.join(COQ, "Model"), "V.Model", "-w", "-all",
                      "-o", os.path.join(ex, "Extract.vo"),
                      os.path.join(COQ, "Extract/Extract.v")], cwd=ex, timeout=600)
    if rc != 0:
        raise RuntimeError("extraction failed:\n" + out[-4000:])
    for f in glob.glob(os.path.join(VERIF, "ocaml/*.ml")):
        shutil.copy(f, ex)
    rc, order, _ = run("ocamlfind ocamldep -sort *.ml *.mli", cwd=ex, env=dict(os.environ), capture=True) \
        if False else run(["sh", "-c", "ocamlfind ocamldep -sort *.ml *.mli"], cwd=ex)
    if rc != 0:
        raise RuntimeError("ocamldep failed:\n" + order)
    rc, out, _ = run(["sh", "-c", "ocamlfind ocamlopt -O2 -w -a " + order.strip() + " -o " + exe], cwd=ex, timeout=900)
    if rc != 0:
        raise RuntimeError("ocaml build failed:\n" + out[-4000:])
    open(stamp, "w").write(dg)
    return exe, time.time() - t0


# ------------------------------------------------------------------------------------------------
# Go drivers

PKG_NAMES = {}


def go_pkg_name(pkgdir):
    """package clause of the non-test files in /repo/<pkgdir>"""
    if pkgdir in PKG_NAMES:
        return PKG_NAMES[pkgdir]
    for f in sorted(glob.glob(os.path.join(REPO, pkgdir, "*.go"))):
        if f.endswith("_test.go"):
            continue
        m = re.search(r"^package\s+(\w+)", open(f).read(), re.M)
        if m:
            PKG_NAMES[pkgdir] = m.group(1)
            return m.group(1)
    raise RuntimeError("no package clause in " + pkgdir)


def build_go_driver(pkgdir, overlay_dir, race=False):
    """Builds a test binary for /repo/<pkgdir> with the overlay files of go/overlay/<overlay_dir>
    added virtually (nothing is written under /repo)."""
    name = overlay_dir.replace("/", "_") + ("_race" if race else "")
    odir = os.path.join(BUILD, "overlay", name)
    os.makedirs(odir, exist_ok=True)
    pkgname = go_pkg_name(pkgdir)
    repl = {}
    tmpl = open(os.path.join(VERIF, "go/overlay/common/vlib.go.tmpl")).read().replace("PKGNAME", pkgname)
    vl = os.path.join(odir, "zz_verif_lib_test.go")
    if not os.path.exists(vl) or open(vl).read() != tmpl:
        open(vl, "w").write(tmpl)
    repl[os.path.join(REPO, pkgdir, "zz_verif_lib_test.go")] = vl
    for f in sorted(glob.glob(os.path.join(VERIF, "go/overlay", overlay_dir, "*.go"))):
        repl[os.path.join(REPO, pkgdir, os.path.basename(f))] = f
    ov = os.path.join(odir, "overlay.json")
    open(ov, "w").write(json.dumps({"Replace": repl}, indent=1))
    exe = os.path.join(BUILD, name + ".test")
    cmd = ["go", "test", "-vet=off", "-tags", "verif", "-overlay", ov, "-c", "-o", exe]
    if race:
        cmd.append("-race")
    cmd.append("./" + pkgdir if pkgdir != "." else ".")
    rc, out, dt = run(cmd, cwd=REPO, env=GOENV, timeout=1500)
    return rc, out, dt, exe


def gen_consts_env():
    """the integer constants the translator regenerated from the source (Gen/Consts.v), for drivers whose
    inputs are positioned relative to them: VERIF_CONST_<name>=<value>"""
    env = {}
    try:
        txt = open(os.path.join(COQ, "Gen", "Consts.v")).read()
    except OSError:
        return env
    for m in re.finditer(r"Definition (\w+) : Z := \((-?\d+)\)%Z", txt):
        env["VERIF_CONST_" + m.group(1)] = m.group(2)
    return env


def run_go_driver(exe, prop, tier, seed, out_path, test="TestVerifDriver", timeout=1500, extra_env=None, cwd=None):
    env = dict(os.environ)
    env.update({"VERIF_PROP": prop, "VERIF_TIER": tier, "VERIF_SEED": str(seed), "VERIF_OUT": out_path})
    env.update(gen_consts_env())
    if extra_env:
        env.update(extra_env)
    for p in (out_path, out_path + ".viol.jsonl", out_path + ".stats.json"):
        if os.path.exists(p):
            os.remove(p)
    wd = cwd or os.path.join(BUILD, "run")
    os.makedirs(wd, exist_ok=True)
    rc, out, dt = run([exe, "-test.run", "^" + test + "$", "-test.count=1", "-test.timeout", "%ds" % timeout],
                      cwd=wd, env=env, timeout=timeout + 30)
    return rc, out, dt


# ------------------------------------------------------------------------------------------------
# model run + comparison

def run_model(exe, case_path):
    """Runs the extracted model on every case line; the file is split into shards evaluated in
    parallel (the model is pure, so shard order is irrelevant)."""
    with open(case_path, "rb") as f:
        lines = f.read().split(b"\n")
    lines = [l for l in lines if l]
    nshard = max(1, min(int(NPROC), len(lines) // 50))
    shards = [b"\n".join(lines[i::nshard]) + b"\n" for i in range(nshard)]
    t0 = time.time()
    procs = []
    for sh in shards:
        p = subprocess.Popen([exe], stdin=subprocess.PIPE, stdout=subprocess.PIPE, stderr=subprocess.STDOUT)
        procs.append((p, sh))
    import threading
    outs = [b""] * len(procs)

    def feed(i, p, sh):
        try:
            outs[i], _ = p.communicate(sh, timeout=3000)
        except subprocess.TimeoutExpired:
            p.kill()
            outs[i] = b""

    th = [threading.Thread(target=feed, args=(i, p, sh)) for i, (p, sh) in enumerate(procs)]
    for t in th:
        t.start()
    for t in th:
        t.join()
    rc = max([p.returncode or 0 for p, _ in procs] + [0])
    res = {}
    for o in outs:
        for line in o.decode("utf-8", "replace").splitlines():
            if "\t" in line:
                i, v = line.split("\t", 1)
                res[i] = v
    return rc, res, time.time() - t0


def read_cases(case_path):
    cases = []
    if not os.path.exists(case_path):
        return cases
    with open(case_path, "r", errors="replace") as f:
        for line in f:
            parts = line.rstrip("\n").split("\t")
            if len(parts) == 5:
                cases.append(parts)
    return cases


def read_violations(case_path):
    p = case_path + ".viol.jsonl"
    out = []
    if os.path.exists(p):
        for line in open(p):
            line = line.strip()
            if line:
                out.append(json.loads(line))
    return out


def read_stats(case_path):
    p = case_path + ".stats.json"
    if os.path.exists(p):
        try:
            return json.load(open(p))
        except ValueError:
            return {}
    return {}


# ------------------------------------------------------------------------------------------------
# known findings

def known_findings():
    path = os.path.join(VERIF, "KNOWN_FINDINGS.txt")
    out = []
    if not os.path.exists(path):
        return out
    for line in open(path):
        line = line.strip()
        if not line or line.startswith("#"):
            continue
        m = re.match(r"finding:\s+property=(\S+)\s+key=(\S+)\s+(.*)", line)
        if m:
            out.append({"property": m.group(1), "key": m.group(2), "what": m.group(3)})
    return out
