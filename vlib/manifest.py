"""Regenerates MANIFEST.json from the property registry (vlib/props.py): run after editing it."""
import json
import os
import sys

sys.path.insert(0, os.path.dirname(os.path.dirname(os.path.abspath(__file__))))
from vlib.props import PROPS, NOT_APPLICABLE  # noqa: E402

VERIF = os.path.dirname(os.path.dirname(os.path.abspath(__file__)))


def main():
    ids = [json.loads(l)["id"] for l in open(os.path.join(VERIF, "properties.jsonl")) if l.strip()]
    checks = []
    for pid in ids:
        if pid not in PROPS:
            continue
        sp = PROPS[pid]
        checks.append({
            "property_id": pid,
            "quick_cmd": "./check %s --tier quick" % pid,
            "thorough_cmd": "./check %s --tier thorough" % pid,
            "evidence_file": "/verif/evidence/%s.json" % pid,
            "replay_cmd_template": "./check %s --replay {path}" % pid,
            "engine": "coq-model+correspondence",
            "level_claimed": {"category": "proof", "text": sp["level_text"], "design_ref": sp.get("design_ref", "DESIGN.md section 5, " + pid)},
            "level_note": sp["level_note"],
            "technique": sp.get("technique", "machine-checked proof in Coq 8.16.1 of theorems about an executable Gallina model; "
                                             "model tied to the Go code by a regenerating translator and a differential correspondence check"),
        })
    na = [{"property_id": pid, "reason": NOT_APPLICABLE.get(pid, "check not built yet in this revision of /verif")}
          for pid in ids if pid not in PROPS]
    man = {
        "version": 1,
        "setup_cmd": "./setup.sh",
        "hooks": {
            "guard": "verif",
            "enable": "go test -c -tags verif -overlay /verif/build/overlay/<driver>/overlay.json (driver files are added virtually; nothing is written under /repo)",
            "baseline_off_cmd": "cd /repo && go build ./... && go test -vet=off -count=1 ./...",
            "source_commits": [],
            "add_only": True,
        },
        "engines": [{
            "name": "coq-model+correspondence",
            "path": "/verif/check",
            "serves_properties": [c["property_id"] for c in checks],
            "kind_free_text": "Coq 8.16.1 proofs over an executable Gallina model (coq/), constants and structural facts regenerated "
                              "from Go source on every run (go/xlate), model extracted to OCaml (ExtrOcamlBasic) and run against "
                              "Go drivers built from /repo's working tree with go test -c -overlay; model-independent property oracles "
                              "search for a concrete failing input when the tie breaks",
        }],
        "checks": checks,
        "not_applicable": na,
        "notes": "All checks: ./check <id> --tier quick|thorough.  Fix commits in /repo are listed in KNOWN_FINDINGS.txt as fixed: entries; "
                 "no hook commits were needed (overlay).",
    }
    json.dump(man, open(os.path.join(VERIF, "MANIFEST.json"), "w"), indent=1)
    print("MANIFEST.json: %d checks, %d not_applicable" % (len(checks), len(na)))


if __name__ == "__main__":
    main()
