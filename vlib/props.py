"""Per-property registry: which Go drivers to build/run and descriptive texts for evidence."""

MAIN = {"pkg": ".", "overlay": "main"}
COOKIE = {"pkg": "pkg/sessions/cookie", "overlay": "cookie"}

PROPS = {
    "C09": {
        "drivers": [MAIN],
        "rule": "cookies minted with SignedValue at issue times on a grid straddling each threshold "
                "(cookie-expire, +5 min skew, zero) by 0..3 s for 6 lifetimes, plus random ages and odd "
                "timestamp spellings; non-trivial = within 3 s of a threshold or an odd timestamp; "
                "distinct = distinct model call",
        "assumptions": ["HMAC-SHA256 modelled as a function supplied as a table of the true MACs (computed "
                        "with Go's crypto/hmac in the driver) of the messages the model queries",
                        "the clock is read before and after each implementation call; a case whose model "
                        "answer differs between the two readings is skipped as ambiguous"],
        "trusted_base": ["time.Time arithmetic assumed exact for |ts| < 2^60 (no int64 wrap in time.Unix)"],
        "level_text": "Theorems c09_window / c09_rejected_after_lifetime / c09_rejected_if_future hold for every MAC function, "
                      "cookie string, clock value and non-zero lifetime of the Gallina model of encryption.Validate (skew regenerated "
                      "from source); the model is run against encryption.Validate on a threshold-straddling grid on every run.",
        "level_note": "HMAC modelled as a function (table of true MACs in the correspondence); time.Time arithmetic assumed exact; "
                      "clock read before/after each call.",
    },
}

PROPS["C10"] = {
    "drivers": [COOKIE],
    "rule": "",
    "level_text": "wip", "level_note": "wip",
}

NOT_APPLICABLE = {}
