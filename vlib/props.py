"""Per-property registry: which Go drivers to build/run and descriptive texts for evidence."""

MAIN = {"pkg": ".", "overlay": "main"}
COOKIE = {"pkg": "pkg/sessions/cookie", "overlay": "cookie"}

PROPS = {
    "C09": {
        "drivers": [MAIN],
        "rule": "also: saves through the real go-redis client on miniredis with single commands (SET, SETEX, EXPIRE, PEXPIRE ...) failing on the wire: no entry without its lifetime; a server-side entry that runs out (or a store error) between a request's first load and its reload under the refresh lock; sessions holding a refresh token and an access token that outlives cookie-refresh (the age is reset only by a refresh the provider was asked for); and: both session stores of the real proxy x lifetimes {90 s, 1 h, 168 h} x cookie-refresh {off, 30 s} x session ages "
                "straddling cookie-expire by 1..3 s and the 5-minute future bound, plus Max-Age, store TTL and a refresh event; and: "
                "cookies minted with SignedValue at issue times on a grid straddling each threshold "
                "(cookie-expire, +5 min skew, zero) by 0..3 s for 6 lifetimes, plus random ages and odd "
                "timestamp spellings; non-trivial = within 3 s of a threshold or an odd timestamp; "
                "distinct = distinct model call",
        "assumptions": ["HMAC-SHA256 modelled as a function supplied as a table of the true MACs (computed "
                        "with Go's crypto/hmac in the driver) of the messages the model queries",
                        "the clock is read before and after each implementation call; a case whose model "
                        "answer differs between the two readings is skipped as ambiguous"],
        "trusted_base": ["time.Time arithmetic assumed exact for |ts| < 2^60 (no int64 wrap in time.Unix)"],
        "level_text": "c09_store_write_carries_lifetime (both Redis client wrappers, regenerated, write an entry with ONE Set call that carries the expiration); c09_nonrefreshing_total_lifetime (a provider that cannot refresh: whatever the sequence of requests and validation answers, nothing later than login + cookie-expire + cookie-refresh is honoured, because of the expiry redeemCode's fallback gives the session), c09_redeem_fallbacks; Theorems c09_window / c09_rejected_after_lifetime / c09_rejected_if_future hold for every MAC function, "
                      "cookie string, clock value and non-zero lifetime of the Gallina model of encryption.Validate (skew regenerated "
                      "from source); c09_issue_time (the signed timestamp is the session's CreatedAt), c09_maxage / c09_maxage_seconds "
                      "(Max-Age of every part = configured lifetime in seconds), c09_store_ttl; the model is run against "
                      "encryption.Validate on a threshold-straddling grid and against both session stores of the real proxy (ages "
                      "straddling cookie-expire and the 5-minute future bound, with and without cookie-refresh, Max-Age, store TTL, "
                      "refresh resetting the age) on every run.",
        "level_note": "HMAC modelled as a function (table of true MACs in the correspondence); time.Time arithmetic assumed exact; "
                      "clock read before/after each call.",
    },
}

PROPS["C10"] = {
    "drivers": [COOKIE, MAIN],
    "rule": "cookie-store driver: save/clear histories (2-6 ops) in an RFC 6265 jar (net/http/cookiejar) over 9 cookie configurations "
            "(names of 1..256 bytes, domains, paths, regex metacharacters in the name) with value sizes swept byte-by-byte around the first "
            "three split thresholds; every Set-Cookie list, every load result and the jar's final contents (model: jar_run from the empty "
            "jar) are compared with the model; whole-proxy driver: histories of whole SessionState values (tokens of 0..14000 "
            "incompressible bytes, Unicode/NUL/empty fields, nil/empty/200 groups, binary nonce) saved and cleared through the configured "
            "store - cookie store, persistence manager over the in-memory Redis client, persistence manager over the repository's real "
            "Redis client against miniredis - with the jar carried across steps and the loaded session compared field by field; "
            "non-trivial = a save/clear/load step of a history (all are); distinct = distinct model call",
    "assumptions": ["HMAC-SHA256 modelled as a function (table of true MACs); AES-CFB/msgpack/lz4 are outside the modelled core: the "
                    "model works on the encrypted value, the session-level round trips (oracle) cover the codec",
                    "c10_history assumes the browser holds no cookie of the session family (name, name_<digits>) under another domain "
                    "or path than the one the proxy sets (dom_ok), a cookie name shorter than the 256-byte split-name limit, a "
                    "non-negative cookie-expire, and signed values shorter than 2^63 bytes",
                    "the Redis store is modelled as a key-value map (Model/Ticket.v); the real client is exercised against miniredis by "
                    "the oracle only"],
    "trusted_base": ["net/http Cookie.String() serialisation is modelled (Model/Cookies.v) and compared byte for byte on every case",
                     "net/http/cookiejar as the browser; Model/Jar.v is compared with it at the end of every history (names and values)",
                     "miniredis as the Redis server for the real-client histories"],
    "level_text": "c10_compression_is_per_call (lz4Compress regenerated: per-call buffer and writer), c10_clear_with_response_cookies; c10_ticket_history (server-side store: after ANY history of saves and clears, from any jar satisfying the family invariant and any store contents, a further save loads exactly what was saved and a further clear leaves nothing), c10_ticket_load_after_save / c10_ticket_nothing_after_clear (its one-step forms: from any jar satisfying the invariant and any store contents, a save followed by a request loads exactly what was saved under the ticket the cookie names, and after a clear neither the cookie nor the entry is left); c10_history (any sequence of saves of any sizes and clears, each computed from and applied to the browser jar: after a "
                  "save the next request loads exactly that value and timestamp, after a clear no cookie of the family is left and nothing "
                  "loads, cookies outside the family are untouched), c10_parts (parts concatenate to the signed value, each <= "
                  "maxCookieLength <= 4096, numbered names), c10_split_progress, c10_load_after_save, c10_clear_complete, "
                  "c10_ts_ok_range (itoa/atoi round trip on the int64 range) are proved for all inputs of the Gallina model of "
                  "pkg/sessions/cookie and of the jar; the model's Save/Load/Clear and the jar are compared with the Go functions and "
                  "net/http/cookiejar on save/clear histories on every run.",
    "level_note": "c10_history is about the cookie store; the server-side store has the one-step theorems above (Model/JarSession.v ticket_step over "
                  "a key-value store) and the oracle over the real persistence manager and Redis client (in-memory client and miniredis); "
                  "Redis' own durability is outside the model.",
}

PROPS["C03"] = {
    "drivers": [MAIN],
    "rule": "for 10 option combinations (csrf-per-request x encode-state x PKCE, two of them on the server-side store): 3 logins "
            "started in browser A, 1 in browser B, 1 at another deployment with another secret; every pairing of ~14 state values "
            "(each login's, foreign, empty, colon-less, flipped characters, prefixes, re-combined nonce/redirect, garbage encodings) "
            "with ~24 cookie sets (none, each login's only, whole jars in both orders, cross-browser, foreign, renamed, tampered at 5 "
            "positions, truncated, tampered-then-valid, under the session name); non-trivial = every pairing; distinct = distinct model call",
    "assumptions": ["HMAC-SHA256, AES-CFB + msgpack decoding of the CSRF record and SHA-256 are modelled as functions; in the "
                    "correspondence they are tables computed with the Go standard library (not repository code) for the cookies presented",
                    "c03_complete premises: hash output is 43 bytes without ':', decryption inverts encryption, timestamp in window, no other "
                    "cookie under the login's own cookie name"],
    "trusted_base": ["the in-memory IdP answers the redemption with a token echoing the nonce of the login the state's nonce part belongs to"],
    "level_text": "c03_sound (for every state string, cookie list, MAC/decrypt/hash function: passing the callback's state check implies a "
                  "validly signed CSRF cookie under the state-derived name whose state nonce hashes to the state's nonce part), "
                  "c03_no_cookie_no_session and c03_complete (start then callback succeeds whatever other cookies are present, any order) "
                  "are proved on the Gallina model of decodeState / GenerateCookieName / LoadCSRFCookie / CheckOAuthState; the model's "
                  "outcome class (status, session cookie, redemption attempted, CSRF cookie cleared, Location) is compared with the real "
                  "proxy's /oauth2/callback on every pairing on every run.",
    "level_note": "That the cookie was *issued* by this proxy rests on MAC unforgeability (C02). Nonce/PKCE binding is C05.",
}

PROPS["C02"] = {
    "drivers": [MAIN],
    "rule": "session cookies (unsplit and 3-part), session tickets (server-side store) and CSRF cookies issued by the real proxy for 3 "
            "secret sizes; every single-position substitution (3 alternative characters incl. the lax-base64 siblings) of small cookies and "
            "a stride over large ones, every truncation length (stride for large), extensions, all 6 field splices of two issued cookies, "
            "timestamp edits and digit migration between value and timestamp, all permutations/drops/duplicates/swaps/recombinations of "
            "split parts, cross-name and cross-secret transplants; each is loaded through SessionStore.Load / LoadCSRFCookie and the accept "
            "bit (for tickets: the store key read) is compared with the model; non-trivial = every altered credential",
    "assumptions": ["HMAC-SHA256 modelled as a function (table of true MACs); AES-CFB/GCM, msgpack and lz4 are not modelled: the model "
                    "decides acceptance up to signature validation, the oracle compares the decoded session with the issued one",
                    "opaqueness (last sentence of the property): c02_cookie_opaque / c02_store_entry_opaque / "
                    "c02_ticket_cookie_has_no_session_field are theorems of the symbolic (Dolev-Yao) model Model/Symbolic.v, in which "
                    "encryption, MAC and hash are perfect by construction; that the real bytes have this shape is checked by decoding issued "
                    "credentials with the real keys, by a leak scan of cookie values and store entries (raw, base64- and hex-decoded views) "
                    "and by trying to open store entries with key material found in the store"],
    "trusted_base": ["Go's crypto/hmac, crypto/aes, crypto/cipher used by the driver to build the oracle tables"],
    "level_text": "c02_mac_shape (how the cookie MAC is computed and checked, regenerated from pkg/encryption/utils.go on every run: keyed HMAC over name, value and timestamp in order, as received, constant-time comparison); c02_credential_reads_pinned / c02_credential_reads_reviewed (every req.Cookie / Cookies() read and every encryption.Validate / SignedValue call in ALL non-test sources, regenerated on every run, is the reviewed list in which each read is validated in place, by its caller or by its callee, or uses cookie names only); c02_save_adopts_only_valid_ticket (a save - login completion or refresh - writes under the ticket the request presents only if that cookie validates, else under the freshly generated one), c02_accepted_has_valid_mac (for every presented string: accepted => field 3 decodes to the MAC of name++field1++field2), "
                  "c02_accepted_alteration_is_issued, c02_mac_input_ambiguity (full characterisation of the unseparated-concatenation "
                  "ambiguity, observation O1), c02_cross_name, c02_parts_order / c02_parts_gap (split cookies), c02_ticket_reads_only_valid "
                  "and c02_ticket_session_from_store (store touched only for a validated ticket) are proved for all inputs of the Gallina "
                  "model of Validate / loadCookie / decodeTicketFromRequest / Manager.Load; acceptance is compared with the real stores on "
                  "systematic alterations of issued credentials on every run.",
    "level_note": "_partial: confidentiality (opaqueness) is proved in the symbolic model only (perfect cryptography; AES-CFB/GCM are not "
                  "analysed) and supported by leak scans; 'nothing the proxy did not produce is accepted' is proved up to MAC unforgeability "
                  "(stated as the MAC-validity conclusion of the theorem).",
}

PROPS["C18"] = {
    "drivers": [MAIN, dict(COOKIE, prop="C18")],
    "rule": "also: eight browsers saving concurrently with both stores, each loading its own session back; clears while the store refuses the delete (the browser is still told to drop its ticket); callbacks delivered as a form POST (state and code in the body, in the query, split between the two, another login's state, none); histories in which a save and a clear share one response (the clear's deletions compared with the model given the names just set); slow logins: the proxy's clock moved 2 s .. 16 min between start and callback x cookie-refresh x cookie-expire x csrf-per-request; cookie options given as flags (comma-separated, repeated, mixed), configuration file and environment, loaded by main's loadConfiguration; and: (1) cookies.MakeCookieFromOptions on option combinations {secure, httponly, samesite x4, path x2, 7 domain sets of 0-3 nested "
            "domains, 3 names, 4 expirations} x 17 hosts (exact, sub-domain, look-alike, unrelated, with port, IPv6, upper case, trailing dot, "
            "empty) x X-Forwarded-Host {absent, matching, unrelated} x reverse-proxy on/off: the serialised cookie is compared byte for byte "
            "with the model; (2) a monitor on every Set-Cookie of complete flows (unauthenticated, start, callback, request, refresh, bad "
            "callback, sign-out) of 6 proxy configurations incl. server-side store, split cookies, nested domains with port, reverse proxy "
            "and a spoofed X-Forwarded-Host with reverse-proxy off; (3) the cookie-store save sweep of C10 (sizes byte-by-byte around the "
            "split thresholds, 12 name/domain configurations) for the 4096-byte clause; non-trivial = all; distinct = distinct model call",
    "assumptions": ["net/http Cookie.String() is modelled (Model/Cookies.v: attribute order, Domain validity rule, Max-Age rendering)",
                    "configured domains are sorted longest-first (validation does it with sort.Slice; equal lengths excluded in the sweep)"],
    "trusted_base": ["reference Domain rule written in the driver (vRefDomain) from the property text, independent of repository code"],
    "level_text": "c18_domains_sorted_once (the single statement that sorts a cookie-domain list, regenerated: c18_domain's sortedness premise), c18_option_tags_regular (158 option tags regenerated and regular), c18_cookie_flags_pinned (the cookie flags regenerated from cookieFlagSet on every run - name, pflag constructor, default: cookie-domain is a comma-separated, repeatable string slice); c18_cookie_surface_pinned / c18_cookie_surface_reviewed (every http.Cookie literal, http.SetCookie call, Set-Cookie header name, cookie-attribute write and constructor call in ALL non-test sources, regenerated on every run, is the reviewed list, in which every emission hands over a cookie that came out of the constructor); c18_attrs, c18_domain (for every host string and every longest-first domain list: longest configured suffix of the port-less "
                  "host, else the shortest, else none), c18_delete, c18_session_parts and c18_size (<= 4096) are proved for all inputs of the "
                  "Gallina model of MakeCookieFromOptions / GetCookieDomain / makeSessionCookie; the model is compared byte for byte with the "
                  "constructor on a sweep and an oracle monitors every Set-Cookie of complete flows on every run.",
    "level_note": "That MakeCookieFromOptions is the only constructor reaching http.SetCookie is the pinned inventory (its per-entry classification is a reviewed annotation) and the flows' monitor.",
}

PROPS["C15"] = {
    "drivers": [MAIN],
    "rule": "(1) isAllowedRoute on 7 rule sets (anchored/unanchored, method-qualified, negated, legacy regex, '=' inside the regex) x "
            "reverse-proxy on/off x 6 methods x 27 paths (encoded, dot segments, unparsable) x queries embedding rule-like fragments x "
            "X-Forwarded-Uri values (well-formed, with query, unparsable); (2) NetSet.Has on 10 network sets (overlapping, nested, mixed "
            "families, mapped, /0) x addresses at and next to the first/last address of every network plus every address of a reduced "
            "universe, each in dotted, IPv4-mapped and hex-mapped notation; ParseIPNet's host-bit rule; (3) isTrustedIP for every "
            "real-client-IP header x header values x remote addresses, reverse-proxy on/off; (4) preflight on/off x methods x CORS "
            "headers; non-trivial = exempted by implementation or reference, or carrying a query/forwarded URI/header value",
    "assumptions": ["Go regexp, url.ParseRequestURI and net.ParseIP are modelled as functions; in the correspondence they are tables "
                    "computed with the standard library for exactly the strings the model asks about",
                    "strings.TrimSpace modelled for ASCII white space"],
    "trusted_base": ["reference deciders in the driver: regexp on the standard-library path only; net.IPNet.Contains"],
    "level_text": "c15_route (exempt iff some rule's method and path-regex match, for every matcher, rule list and request), c15_path_only "
                  "(query/fragment/other headers irrelevant), c15_netset (for every network list and every 128-bit address, membership in "
                  "the built set iff membership in a network of the same family), c15_allowed_request (preflight only for OPTIONS and only "
                  "when enabled), c15_trusted_remote_only / c15_trusted_header_only are proved on the Gallina model of isAllowedRoute / "
                  "GetRequestPath / NetSet / GetClientIP; the model and independent reference deciders are compared with the Go functions "
                  "on every run.",
    "level_note": "regex matching itself (Go regexp) and IP text parsing (net.ParseIP) are modelled library behaviour.",
}

PROPS["C08"] = {
    "drivers": [MAIN],
    "rule": "(1) NewValidator on 10 domain configurations (exact, leading-dot, wildcard, '*', mixed case, TLD) with/without an e-mail file x "
            "~120 e-mails from a grammar (unusual local parts, 0-3 '@', mixed case, sub-domains, look-alike suffixes, empty parts); "
            "(2) authOnlyAuthorize on 8 sessions x query strings with multiple values, comma lists, empty items for the three constraints and "
            "their pairs; (3) the real proxy, both stores: sessions passing/failing the global rules on /, /oauth2/auth (with constraints), "
            "/oauth2/userinfo; rule change between login and request; logins with failing identities; non-trivial = all",
    "assumptions": ["strings.ToLower modelled for ASCII (non-ASCII e-mails are run on the implementation and the oracle only)",
                    "net/url Hostname()/Port() of a bare host modelled by split_host_port_lax"],
    "trusted_base": ["reference reading of the e-mail rules written in the driver (vRefEmailOK)"],
    "level_text": "c08_constraints_from_query_only (extractAllowedEntities regenerated: query only); c08_login_rules / c08_admitted_then_served / c08_served_then_admissible (login admission and the per-request rule coincide); c08_email_spec (validator = empty-check, '*', per-domain rule on the part after the last '@', file membership; for all "
                  "strings), c08_groups_spec, c08_served / c08_refused (every non-bypassed request: served only if the session passes the rules "
                  "passed to THIS call; a failing session is denied and its cookie cleared), c08_auth_only, c08_entities, "
                  "c08_groups_constraint, c08_emails_constraint are proved on the Gallina model of validator.go / Authorize / "
                  "getAuthenticatedSession / authOnlyAuthorize; compared with the Go functions and an independent reference on every run.",
    "level_note": "allowed_email_domains matching is modelled (is_endpoint_allowed) and compared, its declarative reading is shared with C06.",
}

PROPS["C07"] = {
    "drivers": [MAIN],
    "rule": "also: auth-only requests of five methods with constraint parameters in a urlencoded body; negated rules anchored at the end of the path; 16 concurrent auth-only requests of four sessions under three query constraints; session values that are format strings, templates or header syntax when taken as anything but data; the allowed-groups rule under ten provider configurations (oidc, keycloak-oidc with and without roles, adfs, gitlab with projects / gitlab-group, entra-id, keycloak with and without keycloak-group) x 7 group sets x 3 endpoints; the nine legacy header options given as command-line flags (all 512 combinations), configuration file and environment, loaded by main's loadConfiguration and compared with the model's lists; and: (1) middleware.NewRequestHeaderInjector / NewResponseHeaderInjector on 8 structured configurations (mixed-case names, preserve "
            "on/off, two entries for one name, prefix, basic-auth encoding, secret values, several values per header, unknown and time "
            "claims) x 6 sessions (nil, every field empty or multi-valued, commas inside values) x 5 client header sets spoofing every "
            "configured name in lower/upper/mixed case, repeated lines and comma-joined values: the header multimap seen by the next "
            "handler is compared with the model; (2) the real proxy with legacy header flag combinations (every 9th of the 512 in quick, "
            "all in thorough) for a cookie session, a bypassed request and an htpasswd basic-auth request with spoofed headers; "
            "non-trivial = all",
    "assumptions": ["net/http Header Add/Del/Set and textproto.CanonicalMIMEHeaderKey are modelled (association list with canonical keys)",
                    "time.Time.String() rendering of created_at / expires_on is passed through as an opaque string"],
    "trusted_base": ["spoof markers and reconstruction of the expected user / access-token header in the driver"],
    "level_text": "c07_option_tags_regular (flag tags of all option fields regenerated and regular); c07_header_writes_pinned / c07_header_writes_reviewed (every Set / Add / Del on a header map in ALL non-test sources outside the provider clients, regenerated on every run, is the reviewed list: injectors, strip, flatten, the GAP-Auth copy of the authenticated user, fixed response headers); c07_legacy_request_authorization / c07_legacy_response_authorization / c07_legacy_preserve_uniform (the conversion of the legacy flags, Model/LegacyHeaders.v: which Authorization entry each flag combination yields and that every generated entry carries the same preserve bit = not skip-auth-strip-headers), compared with LegacyHeaders.convert on all 2x512 flag masks on every run; c07_request (for every client header map, optional session and configuration: value under a configured name = client "
                  "values only if no entry strips it, then the session/secret-derived values in configuration order, comma-joined), "
                  "c07_client_values_ignored (non-interference for stripped names), c07_bypass, c07_empty_claim, c07_response are proved on "
                  "the Gallina model of stripHeaders / Inject / flattenHeaders / GetClaim; compared with the Go injectors on every run.",
    "level_note": "the basic-auth password secret source and the header injectors' use of the converted list are covered by the injector model; flag parsing (pflag) is library behaviour.",
}

PROPS["C06"] = {
    "drivers": [dict(MAIN, timeout=3000)],
    "rule": "(1) redirect.Validator.IsValidRedirect for 6 whitelists (none, exact, leading-dot, wildcard, port, any-port) on every string over a "
            "28-token adversarial alphabet (slashes, backslashes, ASCII/Unicode white space, control characters, dot segments, userinfo, "
            "ports, IPv6 literals, percent-encodings, scheme/case tricks) up to 3 tokens (4 in thorough), random strings of up to 7 tokens and a "
            "corpus of classic payloads: decision vectors compared with the model; every accepted string is turned into the Location "
            "http.Redirect emits and resolved with Node's WHATWG URL parser; (2) AppDirector.GetRedirect on random combinations of rd, "
            "X-Auth-Request-Redirect, X-Forwarded-*, request target, reverse-proxy on/off; (3) start->callback, forged state redirect, "
            "sign_out and sign_in form login on the real proxy, encode-state on/off; non-trivial = strings that begin like a redirect or are "
            "accepted; distinct = distinct model call",
    "assumptions": ["net/url.Parse (Hostname/Port of http(s) URLs) is a modelled function: in the correspondence a table computed with the "
                    "standard library; Go regexp is replaced by a hand-written scanner pinned to the literal regenerated from source",
                    "the browser is modelled for targets beginning with '/' only (c06_relative); for absolute targets the browser's reading is "
                    "checked by the Node oracle on every accepted string, not proved (no model of WHATWG host parsing / IDNA here)"],
    "trusted_base": ["Node 20 WHATWG URL as the browser; reference whitelist reading in the driver (vRefAllowed)"],
    "level_text": "c06_location_header (for every accepted relative target and either verdict of net/url.Parse, the Location header http.Redirect sets - path.Clean before the query, trailing slash kept, non-ASCII escaped: Model/GoPath.v - still reads in a browser as a path on the current host); c06_relative (for every byte string: accepted by the relative rule => a browser stays on the request host), "
                  "c06_accepted_cases, c06_empty_whitelist, c06_chain (every target GetRedirect returns is '/' or validated, for every request), "
                  "c06_callback, c06_identity (a valid rd path is returned byte for byte), c06_regex_literal are proved on the Gallina model of "
                  "validator.go / director.go / getters.go; decisions are compared with the Go code on an exhaustive token enumeration and every "
                  "accepted target is resolved by a real WHATWG URL parser on every run.",
    "level_note": "_partial for absolute targets: agreement between net/url's and a browser's host parsing is exercised (Node), not proved; "
                  "http.Redirect's rewriting is modelled for targets without scheme and host only (absolute targets are sent as they are).",
}

PROPS["C16"] = {
    "drivers": [MAIN],
    "rule": "also: X-Auth-Request-Redirect and Accept held fixed in both requests of each pair; a cookie-domain configuration with redirect targets under the cookie domain that are not on the whitelist; list-valued and odd-case forwarding header values; configurations with api routes (the 401-JSON / sign-in-page classification must not follow X-Forwarded-Uri); and: pairs of requests to 10 endpoints (protected path, skip-auth path, auth-only, start, sign_in, sign_out, callback, userinfo, "
            "OPTIONS) x 4 configurations (plain; trusted IPs + skip routes + whitelist + nested cookie domains; force-https; insecure cookie + "
            "skip-provider-button) with reverse-proxy off: the request without forwarding headers against the same request with each of 13 "
            "forwarding/client-IP headers, all of them, and mixed subsets; the decision projection (status, upstream hit, Location, OAuth "
            "redirect_uri, cookie names/domains/paths, rd of the sign-in page) must be identical; reverse-proxy on: each client-IP header "
            "against each configured header; getOAuthRedirectURI compared with the model; non-trivial = all",
    "assumptions": ["the decision projection drops the fresh random parts of the login URL (state nonce, OIDC nonce, PKCE challenge) and "
                    "the request id"],
    "trusted_base": ["the projection function vDecision in the driver"],
    "level_text": "c16_forwarded_surface_pinned / c16_forwarded_surface_reviewed (every mention of a forwarding or client-IP header name, of the constants naming them, of the client-IP parser and of the reverse-proxy flag in ALL non-test sources, regenerated on every run, is the reviewed list) and c16_accessor_shapes (the three accessors still have the guarded shape the model assumes, IsProxied is the scope flag); c16_serve_request_ignores_forwarding (over the composition of Model/Compose.v: requests differing only in forwarded URI / client-IP header get the same answer with reverse-proxy off); c16_accessors, c16_redirect and c16_oauth_redirect_uri (2-safety: requests that differ only in X-Forwarded-Host/-Proto/-Uri "
                  "get the same redirect target and OAuth redirect URI when reverse-proxy is off), c16_bypass_path, c16_trusted_ip_off / "
                  "c16_trusted_ip_on, c16_cookie_domain are proved on the Gallina models of pkg/requests/util, the redirect director, "
                  "getOAuthRedirectURI, GetRequestPath and GetClientIP; pairs of real requests are compared on every run.",
    "level_note": "the models read the forwarding headers through explicit record fields; that the Go code reads them nowhere else is the "
                  "pinned inventory (its per-entry classification is a reviewed annotation) and the pairwise runs on the real proxy.",
}

PROPS["C11"] = {
    "drivers": [MAIN, dict(COOKIE, prop="C11")],
    "rule": "also: cookie-expire=0 (cookies without Max-Age) histories; a foreign-host request (junk cookie, login start) placed before every sign-out of the nested-domain configurations; sign-out presenting a cookie the proxy can no longer use (signature older than cookie-expire, previous secret, truncated, foreign) for both stores; wire-level faults on every command of the sign-out request through the real go-redis client on miniredis; and: histories on the real proxy: a stale session (so that the next request refreshes and re-saves) of size small/large, k in {0,1} "
            "requests before sign-out (k=0: the refresh happens inside the sign-out request), refresh growing or shrinking the session "
            "across the split threshold, sign-out via GET/POST with/without rd, 4 store/domain configurations (cookie store, server-side "
            "store, nested cookie domains), and for the server-side store the delete failing before/after taking effect; then the jar and "
            "every cookie the browser ever held are replayed against /oauth2/userinfo; plus the cookie-store Clear correspondence of C10; "
            "non-trivial = all",
    "assumptions": ["HMAC modelled as a function (table); the store is an association list in the model",
                    "lock keys (`<ticket>.lock`) are not session entries"],
    "trusted_base": ["net/http/cookiejar as the browser"],
    "level_text": "c11_store_client_passes_errors (every method of both Redis client wrappers, regenerated from pkg/sessions/redis/client.go on every run, hands the call through in one return statement: the error sign-out sees is the store's); c11_signout_race_reliable_provider (a sign-out racing a request on one stale session, Model/SignOutRace.v: for EVERY interleaving of their store / lock / provider operations, once both are finished the stored session is gone, provided the provider answers every refresh call; by a computed reachable-state set shown closed under both requests' moves), c11_signout_race_refuted and c11_signout_race_refuted_at_boundary (without the proviso the clause is false of the faithful model and of the code: known finding F21); the model is run on every schedule the deterministic scheduler explores on the real proxy, including a provider that fails the first refresh attempt; c11_cookies (every presented cookie of the session family is deleted under its own name with the configured path and "
                  "selected domain), c11_success_implies_deleted and c11_error (server-side store: success redirect only if the delete "
                  "succeeded; a failed delete gives the error page), c11_ticket_cookie_deleted, c11_stays_deleted (induction over every later "
                  "history of store operations not re-writing the key) and c11_replay (no cookie resolving to the deleted ticket loads a "
                  "session) are proved on the Gallina model of SignOut / Manager.Clear / cookie-store Clear; the model and oracles are "
                  "compared with the real proxy on sign-out histories on every run.",
    "level_note": "_partial for concurrency: a sign-out racing a refreshing request can leave the stored session behind when the provider fails the sign-out request's own refresh call or the session's age crosses the refresh period between the two requests (known finding F21 in KNOWN_FINDINGS.txt, proved as the refutation witness); sequential histories are covered in full.",
}

PROPS["C12"] = {
    "drivers": [dict(MAIN, timeout=3000), {"pkg": "providers", "overlay": "providers", "prop": "C12"}],
    "rule": "also: every provider implementation's RefreshSession on sessions of four ages x three access-token states (a successful refresh leaves a usable session with the stated lifetime); and: the real StoredSessionLoader over persistence.Manager and an in-memory store whose every operation (get/set/del/lock-obtain/"
            "lock-release) and every identity-provider token call first asks a deterministic scheduler which request may proceed: "
            "depth-first enumeration of the schedules of 2 concurrent requests sharing a stale session (preemption bound 3 in quick, "
            "unbounded in thorough), of 3 requests (bound 2 / 3), and of a sign-out racing a refreshing request; the identity provider "
            "issues single-use rotating refresh tokens; each schedule's trace is replayed on the model (`run`); plus sequential cases: "
            "session age {1, 59, 61, 600 min} against a 60 min refresh period x {refresh token present, refresh accepted, old/new session "
            "validates} x both stores; non-trivial = every schedule / case",
    "assumptions": ["sessions are abstracted to a token version in the model; a request's operations are the yield points of the scheduler "
                    "(one model step per store/lock/provider operation)",
                    "no lock-expiry step (the property's proviso); the expiry boundary is shown as a concrete trace (expiry_boundary)"],
    "trusted_base": ["the scheduler in the driver (a request blocked on a held lock is not schedulable)"],
    "level_text": "c12_refreshed_session_usable / c12_unstamped_refresh_expired (a just-refreshed session's expiry counts from the refresh iff it is re-stamped first), c12_expires_in_sites_pinned (regenerated ExpiresIn call sites); c12_write_before_validate_refuted / c12_validate_before_write_safe (providers without refresh support, Model/StampRace.v: the re-stamped session is written before it is validated, so a concurrent request can be served without validation - known finding F22 - while with validation first nobody is served in any interleaving; compared with the real proxy on every explored schedule); c12_refresh_chain (against single-use refresh tokens a chain of refreshes of any length never presents a consumed token, whichever responses carry an ID token); c12_once is proved for ANY number of requests and ANY interleaving (inductive three-phase invariant over the transition "
                  "system of Model/Refresh.v): at most one refresh, none with a consumed token, every finished request served with the "
                  "refreshed session; c12_never_stale, c12_seq_never_stale, c12_run_reachable; the model is run on every schedule the Go "
                  "scheduler explores and the per-schedule outcome (refresh counts, each request's result and upstream token) compared.",
    "level_note": "_partial: for providers without refresh support the clause is false under concurrency (known finding F22, proved as the refutation witness); preemption inside a store operation, Redis' own atomicity, the redislock implementation and wall-clock lock TTL "
                  "are runtime behaviour the model cannot exhibit; they are covered only by the thorough tier's concurrent run.",
}

PROPS["C13"] = {
    "drivers": [MAIN],
    "rule": "six scenarios on the real proxy over persistence.Manager and an in-memory store client with a fault plan (login callback, "
            "authenticated request, request with a due refresh, refresh refused by the provider, sign-out, readiness probe) x every "
            "position k of the scenario's store-operation sequence (and two positions beyond it) x fault kind {error before effect, error "
            "after effect (lost reply), missing key, corrupted value at 4 offsets, truncation to 0/1/11/12/13/28/29/60 bytes}, singly "
            "(quick) and in pairs (thorough); outcome class, operation sequence, cookie set/cleared compared with the model; non-trivial "
            "= every faulted run; the readiness endpoint under reordered front chains (silence-ping-logging, renamed ping / ready paths, GCP "
            "health checks, a ping user agent) with the store down, and a grid of 16 probe-looking paths x 5 user agents x store up / down "
            "per variant compared with the model of the probe handlers (Model/Probe.v)",
    "assumptions": ["corrupted / truncated values are rejected by AES-GCM authentication or msgpack decoding (modelled: every fault on a "
                    "read makes the load fail); lock semantics of the in-memory client, not redislock"],
    "trusted_base": ["the fault-injecting store client in the driver"],
    "level_text": "c13_never_ready_when_down and c13_ready_path_not_shadowed (for EVERY configuration of ping / ready paths, ping agent and GCP checks and every request: with the store down nothing is answered by a successful readiness check, and the ready path - unless the operator listed it as a ping path - is answered 500 for every client that is not a ping agent), over the probe wiring regenerated from buildPreAuthChain / healthcheck.go / readynesscheck.go on every run (c13_probe_wiring_pinned, c13_gcp_literals); c13_store_entries_are_authenticated (the cipher sealing store entries, regenerated from ticket.makeCipher on every run, is AES-GCM: the premise 'a corrupted entry fails to unseal' of the fault model); c13_outage (every store operation of a request failing: nothing reaches the upstream, no session cookie is set, login and sign-out answer with the error page, readiness fails); for EVERY fault plan (a function from operation index to fault kind): c13_auth (upstream only if both reads were unfaulted "
                  "and the lock obtained without error), c13_faulted_read_unauth / _lock_ / _reload_, c13_cookie_callback and "
                  "c13_cookie_refresh (a session cookie only after a successful write), c13_signout, c13_ready, and the exact "
                  "characterisation of the strict clause c13_strict_characterisation with c13_strict_refuted_save (finding F8) are proved on "
                  "the Gallina model of the flows; the model is compared with the real proxy at every fault position on every run.",
    "level_note": "the strict clause (ANY faulted operation => unauthenticated) is false of the faithful model and of the code for the write "
                  "after a successful refresh and for the lock release: known findings in KNOWN_FINDINGS.txt (deliberate upstream behaviour).",
}

OIDC_ASSUME = ["go-oidc / go-jose (signature against the issuer's key set with an allowed algorithm, issuer and expiry checks) are a modelled "
               "library: a token carries the verdict sig_ok, decided in the driver by construction (right key + RS256/ES256); nbf is not modelled",
               "claims are typed JSON with integer numbers; strings inside nested arrays/objects avoid characters encoding/json escapes"]
PROPS["C04"] = {
    "drivers": [MAIN],
    "rule": "also: a backend logout URL configured in the fault sweep's environment; several extra JWT issuers in one configuration (one discovery-less, one with a key set of its own, both orders): a token is accepted iff signed by a key of the issuer it names; short-lived tokens minted AFTER the proxy started, presented before and after their exp (own and extra issuer); extra JWT issuers whose configured audience contains '=' x token audiences on every prefix boundary; and: 7 provider configurations (default with an extra audience, custom audience claim, allow-unverified, custom e-mail claim, discovery, "
            "profile endpoint, skip-issuer) x ~40 tokens varying one clause at a time from a valid baseline (key/alg: other key, alg none, "
            "HS256 keyed with the public key; issuer; audience string/list/extra/wrong/empty list/number/object/list with number/null/"
            "absent; expiry; email_verified true/false/absent/'false'/0/1/'true'/garbage; claim types) plus combinations, each on all three "
            "entry paths through the real provider (Redeem, RefreshSession, CreateSessionFromToken): the resulting identity (user, e-mail, "
            "groups, preferred username) or refusal is compared with the model; non-trivial = all",
    "assumptions": OIDC_ASSUME,
    "trusted_base": ["token construction labels in the driver; JWTs signed with the Go standard library"],
    "level_text": "c04_extra_issuer_audience / c04_extra_issuer_needs_audience (an extra-jwt-issuers entry configures exactly the audience after its first '=', for every audience string); c04_verified (verification => signature, issuer, expiry and audience membership), c04_callback / c04_refresh / c04_bearer (a "
                  "session on each entry path only from a verified token; a refresh response without ID token keeps the old identity), "
                  "c04_claims (fields = coerced configured claims; e-mail not marked unverified), c04_token_first / "
                  "c04_profile_only_if_missing are proved on the Gallina model of verifier.go / provider_data.go / claim_extractor.go / "
                  "oidc.go; compared with the real provider on the token matrix on every run.",
    "level_note": "go-oidc and go-jose are modelled, not verified.",
}
PROPS["C05"] = {
    "drivers": [MAIN],
    "rule": "also: eight goroutines running whole logins concurrently and hammering the nonce-hashing step (each nonce sent or checked is the login's own); the legacy OIDC switches (skip-nonce, skip-issuer-verification) given as flags, configuration file and environment and loaded by main's loadConfiguration; the byte-identical ID token of a completed login answered to later logins (same and other browser; oidc, keycloak-oidc); the challenge method in 12 spellings (what is sent declares a method the challenge matches; the verifier in clear only under 'plain'); and: two overlapping logins per browser x provider behaviours {echo the hashed nonce, the other login's, empty, absent, null, the raw "
            "nonce, a number, a prefix, case-flipped} x code-challenge method {none, S256, plain} x skip-nonce x csrf-per-request on the real "
            "proxy with an in-memory provider that records the verifier presented at redemption; the CSRF cookie is decrypted with the "
            "standard library to obtain the raw nonces and verifier for the leak scan and the challenge check; non-trivial = all",
    "assumptions": OIDC_ASSUME + ["SHA-256 modelled as a function; freshness of crypto/rand is an assumption (the run checks distinctness of "
                                  "what it observed)"],
    "trusted_base": ["the in-memory provider"],
    "level_text": "c05_nonce_hash_is_per_call (HashNonce regenerated: no state shared between logins in flight); c05_unknown_method_refused / c05_verifier_in_clear_only_plain (the configured method as a string: anything but S256 / plain starts no login; the verifier is its own challenge only under plain), c05_challenge_switch_pinned (GenerateCodeChallenge's switch regenerated from the source); c05_nonce, c05_missing_nonce, c05_raw_nonce (validation with nonce checking passes only if the ID token's nonce claim equals "
                  "the hash of this login's stored nonce; absent/null/empty/raw values fail), c05_verifier_shape (128 unreserved characters "
                  "from the regenerated 96 random bytes, within RFC 7636's 43..128), c05_verifier_fresh (injective in the randomness), "
                  "c05_challenge are proved on the Gallina models; c05_secrecy / c05_secrecy_plain / c05_plain_discloses_verifier (an "
                  "observer of the CSRF cookie and the authorization request who lacks the cookie secret learns no raw nonce and, unless the "
                  "method is plain, not the verifier) are proved in the symbolic (Dolev-Yao) model; nonce acceptance and the way each secret is "
                  "wrapped in the real authorization request (absent / clear / hashed) are compared with the models on every run.",
    "level_note": "_partial: the secrecy theorems hold in the symbolic model (perfect hash / encryption by construction); the leak scan of "
                  "everything sent to the browser supports them on the real bytes.",
}
PROVIDERS = {"pkg": "providers", "overlay": "providers"}
PROPS["C14"] = {
    "drivers": [dict(MAIN, timeout=3000), dict(PROVIDERS, prop="C14")],
    "rule": "also: bearer tokens with wrongly typed realm / client role claims under Keycloak-OIDC; refresh answers the provider reports as malformed (opaque / truncated access token at Keycloak-OIDC) must not be persisted; the provider sweep's login pipeline mirrors the callback (enrich, validate, authorise) with 'a token response without an access token gives no session'; GitHub / Bitbucket logins whose e-mail lookup answers well-formed JSON without a usable e-mail under three e-mail-domain configurations (compared with the model's admission rule); a Google provider with a group restriction (Admin SDK redirected to the in-process provider) in the provider sweep, with 'an error status at an endpoint a refresh reads extends no session'; and: every identity-provider call position of the login (token endpoint, profile endpoint for a missing claim and for email_verified, "
            "key retrieval), bearer (key retrieval) and refresh (token endpoint; expired and invalid old sessions) flows x 16 response kinds "
            "(5xx, 4xx, connection reset, timeout, empty body, truncated JSON, non-JSON, JSON array, missing id_token / access_token, "
            "id_token of wrong type / garbage, oversized body, wrongly typed expires_in) x 13 wrongly typed claims, on both stores; the three "
            "provider entry paths with a failing profile endpoint are compared with the model; non-trivial = all",
    "assumptions": OIDC_ASSUME + ["'slow beyond timeout' is injected as a context-deadline error from the transport"],
    "trusted_base": ["the in-memory provider's fault injection"],
    "level_text": "c14_no_email_no_session (no admission without an e-mail under any e-mail-domain configuration); c14_generic_login_only_if / c14_generic_error_status_no_session / c14_generic_validate_only_if (non-OIDC provider family, Model/GenericProvider.v: a session only from a 200 token response carrying an access token, validation only from a 200 answer), compared with the generic provider on every run; c14_no_id_token, c14_unverified, c14_audience_wrong_type, c14_profile_failure, c14_refresh_failure are proved on the Gallina "
                  "models (Oidc.v, Refresh.v); oracles on the real proxy check that no session is created or extended at any faulted position "
                  "and that handling does not panic, on every run; a sweep over every provider implementation (19 configurations built by NewProvider) replaces one position of one response document by a value of another JSON type and checks that no provider call panics.",
    "level_note": "transport-level behaviour (timeouts, resets) is exercised, not modelled; the provider-specific decoders outside the OIDC / generic families are covered by the panic-site inventory (C19) and the sweep, not by a model.",
}

BASIC = {"pkg": "pkg/authentication/basic", "overlay": "basic"}
PROPS["C20"] = {
    "drivers": [dict(BASIC, race=True), dict(MAIN, race=True)],
    "rule": "also: an inotify queue overflow (more events than fs.inotify.max_queued_events while a reload is held up) followed by a real update; a watchdog that reports validations and reloads that stop completing (deadlock); and: binaries built with the race detector: 2 reloaders cycling 7 htpasswd file versions (entry added / removed / password changed / two "
            "malformed versions in between) against 6 (16 in thorough) validating goroutines for 3 s (40 s), and the same for the "
            "authenticated-e-mails allow-list (5 versions, one with a CSV parse error); every answer is checked against the set of versions "
            "in force between the start and the end of the call; after the reloaders stop every validation must reflect the final contents; "
            "a failed reload must leave the previous contents exactly; non-trivial = each stress run",
    "assumptions": ["the Go memory model gives sequentially consistent behaviour to data-race-free programs (SC-for-DRF): the interleaving "
                    "semantics of Model/Reload.v is then sound for the generated programs",
                    "fsnotify delivery is not modelled: the reload functions are called directly after rewriting the file",
                    "a deferred Unlock would be recorded at the defer site by the translator (none exists in the modelled functions)"],
    "trusted_base": ["translator go/xlate/sync.go (event programs from the Go AST)", "the Go race detector and scheduler for the stress run"],
    "level_text": "c20_watcher_loop_pinned (only the done channel ends the watcher's event loop: regenerated); c20_rearm_then_reload_safe (the file watch under any sequence of writes, replacements and event-loop steps: re-arming before reloading never loses an update; the neighbouring orders are refuted), c20_watcher_remove_branch_pinned (that order regenerated from pkg/watcher/watcher.go); c20_serial_reloads_publish_final (reloads run by one event loop: once a reload that read the final contents has published, the published contents are the file's; refuted for overlapping reloads), c20_watcher_serial (every call of the reload callback in the regenerated pkg/watcher/watcher.go sits in the event loop); c20_drf (for ANY event programs passing the static lock discipline, ANY number of goroutines and ANY interleaving: no race "
                  "state is reachable; inductive invariant over the RWMutex transition system), c20_generated_well_locked (the programs "
                  "REGENERATED from htpasswd.go / validator.go on this run pass the discipline, by computation), c20_generated_drf, "
                  "c20_snapshot (one pointer read per validation; published maps never mutated), c20_failed_reload (one publication per reload, "
                  "after all error exits) are proved; a race-detector stress run checks the code on every run.",
    "level_note": "_partial: real preemption and the memory model are runtime behaviour; covered by SC-for-DRF as an assumption and by the stress run.",
}

PROPS["C17"] = {
    "drivers": [dict(MAIN, timeout=3000)],
    "rule": "also: allow-query-semicolons (the environment mirrors the server's handler wrapping); sibling paths of the proxy's own exact endpoints (/robots.txt.bak, /ping/, /readyz ...); a websocket-upgrade variant of every request and upstream URIs that carry a path; and: the real proxy (real upstream.NewProxy and httputil.ReverseProxy) in front of recording HTTP servers on loopback: 4 upstream sets "
            "(nested and sibling prefixes, exact paths without trailing slash, rewrite rules with capture groups and query additions, static "
            "upstreams, pass-host-header off) x raw-path proxying on/off x 37 paths (percent-encoded slashes, dots, spaces, plus signs, "
            "semicolons, UTF-8 raw and encoded) x queries x methods GET/POST/PUT/DELETE with bodies up to 64 KiB (1 MiB in thorough) and "
            "repeated / unusual headers, as an authenticated session; the upstream reached (or redirect / not found) is compared with the "
            "model run on the order the sort actually produced, and the raw query each upstream received with the model's "
            "forwarded_query; plus the same grid with a non-websocket Upgrade request header, and a wire-level sub-driver (the proxy behind "
            "a real HTTP server) with upstreams that send 103 Early Hints once or twice before final statuses 200..503; non-trivial = all",
    "assumptions": ["gorilla/mux tries routes in registration order (first match wins) and Go's regexp are modelled; the regex oracle is a "
                    "table computed with the standard library",
                    "byte-faithful streaming of bodies and relay of the upstream response are httputil.ReverseProxy behaviour: exercised "
                    "(oracles), not modelled"],
    "trusted_base": ["independent best-match computation and faithfulness oracles in the driver; loopback HTTP servers"],
    "level_text": "c17_generated_comparator (the comparator sortByPathLongest hands to sort.Slice, translated from the source on every run, equals the model's on every pair of upstreams) and c17_director_shape (the reverse proxy's director as regenerated); c17_route (for EVERY ordering the unstable sort may produce - any permutation satisfying the comparator - the first matching "
                  "route is a matching upstream of greatest key: longest matching rewrite rule, else longest matching plain path), "
                  "c17_comparator, c17_no_match, c17_plain_unique are proved on the Gallina model of sortByPathLongest and the route table; "
                  "c17_query_verbatim / c17_query_additions / c17_query_no_additions / c17_rewrite_refused_iff / "
                  "c17_rewritten_path_has_no_query (the query arrives exactly as sent without a rule, and verbatim followed only by the "
                  "rule's additions with one; refusal only when the rule's own query cannot be parsed) on the model of rewritePath; "
                  "routing is compared with the real proxy and method / request-target / body / headers / response relay are checked by "
                  "oracles on every run.",
    "level_note": "_partial: the director's byte-for-byte request-target (URL.Opaque = RequestURI) and response relay are checked by oracles only.",
}

PROPS["C19"] = {
    "drivers": [dict(MAIN, timeout=3000), dict(PROVIDERS, prop="C19")],
    "rule": "also: the REAL upstream handlers under 10 per-upstream option sets x 5 targets x 7 upgrade-header sets x 4 methods; 44 option values in unusual spellings (cookie_samesite, cookie_name, cookie_path, proxy_prefix, code_challenge_method, whitelist_domain, cookie_domain): what validation accepts is served 16 cookie-setting and -deleting requests each; every claim also injected through a basicAuthPassword source; and: grammar-based mutation of whole raw requests (request target over every endpoint with 31 query variants incl. state/code/rd/allowed_* "
            "values, ~70 Cookie header variants built from this proxy's own session, stale-session and CSRF cookies, 21 Authorization "
            "variants incl. valid/mutated bearer tokens and basic credentials, 22 forwarding / client-IP / Accept / upgrade header sets, "
            "methods, hosts, remote addresses, form bodies): one-dimension sweeps plus 2500 (40000 in thorough) random combinations for each "
            "of 8 validated configurations (every injectable claim incl. created_at / expires_on as request and response headers, cookie, "
            "bearer and basic sessions, both stores, csrf-per-request, encode-state, reverse-proxy with each of the 5 client-IP headers, "
            "force-https, API routes, JSON errors, cookie names with regex metacharacters and of 252 bytes); p.ServeHTTP is called directly "
            "under recover; non-trivial = every configuration's run",
    "assumptions": ["the classification of each inventory entry (why it cannot panic while serving) is a reviewed annotation",
                    "panics inside net/http, gorilla/mux, go-oidc or other libraries are only found by the request fuzzing"],
    "trusted_base": ["translator go/xlate/sites.go and guards.go (inventory and guard shapes from the Go AST)"],
    "level_text": "c19_sites_pinned (the inventory of slice / constant-index / unchecked-assertion / panic / MustCompile sites regenerated from the "
                  "request-path packages, every provider implementation, pkg/requests and pkg/logger equals the reviewed list) and c19_no_unguarded_site, plus guard theorems for every input over Go's "
                  "partial operations with the guard operator and constant regenerated from the source: c19_allowed_email_domains, "
                  "c19_decode_state, c19_validate_parts, c19_split_auth_header, c19_basic_credentials, c19_parse_jwt, c19_google_id_token, c19_logingov_keys, c19_azure_other_mails (the provider decoders repaired by fix: commits: a revert removes the guard the translator looks for), c19_state_substring, "
                  "c19_cfb_decrypt, c19_gcm_decrypt; request fuzzing over 8 configurations, a logging-format sweep and the provider response sweep on every run search for a concrete crashing input.",
    "level_note": "_partial: there is no single serve-function model from which absence of panics follows; the theorems cover the listed guarded "
                  "sites, the rest of the inventory is covered by its reviewed classification and the fuzzing.",
}

PROPS["C01"] = {
    "drivers": [dict(MAIN, timeout=3000)],
    "rule": "also: a stored session removed between a request's load and its reload under the refresh lock; after a refresh the NEW ID token's groups decide (still member / other group / empty list / no claim) on every disclosing endpoint and both stores; stale stored sessions whose provider will not refresh them, with nonce checking on and off (ID token valid / expired / unknown key / other issuer / other audience / other or no nonce) on every disclosing endpoint and both stores; and: every request of the grid on the cookie store is also given AS SENT (cookies, method, target, peer address) to the composed model serve_request, whose bypass decision and stored credential are computed by the model from the configured rules and the signed-cookie model; product on the real proxy: 22-23 credential states (none, valid cookie, valid but wrong e-mail domain / group, tampered, truncated, "
            "expired, signed with another secret, CSRF cookie under the session name, garbage, ticket for a deleted key, valid bearer, bearer "
            "with other key / wrong audience / expired / alg none, valid basic, wrong password, unknown user, malformed Authorization, "
            "valid cookie + bad bearer; a credential-less request right after an authenticated one) x 11 endpoints (protected paths, API "
            "route, skip-auth path, auth-only with/without query constraints, userinfo, sign_in, robots, ping) x GET/POST/OPTIONS x trusted / "
            "untrusted remote address x Accept JSON x 4 configuration variants (bypass rules, API routes, domain and group restrictions, "
            "skip-provider-button, force-JSON) x both stores; outcome class and cookie clearing compared with the model; non-trivial = all "
            "protected-endpoint cases",
    "assumptions": ["what each credential loader yields is an input of the composition model (decided by the sub-models of C02/C04/C09 and, in "
                    "the correspondence, by the construction of the case)", "gorilla/mux routing is modelled by the regenerated route table"],
    "trusted_base": ["translator go/xlate/routes.go", "construction labels and the bypass / authorisation reference in the driver"],
    "level_text": "c01_end_to_end / c01_end_to_end_otherwise / c01_end_to_end_ticket (Model/Compose.v: the bypass decision of C15, the signed cookie of C02 - or the ticket and store entry - and the handlers composed as oauthproxy.go composes them: a disclosing answer implies a configured bypass, a loader's word, or a presented cookie whose third field is the MAC of its name, value and timestamp and whose value decodes to an authorised session), c01_only_if (for every endpoint, configuration, credential situation and request: disclosure => bypass, or a session vouched for "
                  "by a loader that also passes the authorisation rules and the auth-only constraints), c01_otherwise (no bypass, no vouched "
                  "session => sign-in page, redirect to the provider or 401, nothing disclosed), c01_if, c01_unauthorised, and c01_routes (the "
                  "regenerated route table registers every disclosing handler behind the session chain; each calls getAuthenticatedSession, "
                  "which checks bypass, nil session, authorisation in that order) are proved on the Gallina model of the session chain, "
                  "getAuthenticatedSession and the Proxy / AuthOnly / UserInfo handlers; compared with the real proxy on the product grid.",
    "level_note": "credential validity itself is C02/C04/C09; bypass matching is C15; this property is their composition.",
}

NOT_APPLICABLE = {}
